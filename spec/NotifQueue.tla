------------------------------ MODULE NotifQueue ------------------------------
(* C11: storage.IndexNotificationQueue, implementation shaped: one binary     *)
(* heap ARRAY per table ordered by revision (util/heap Push / Pop / Fix with  *)
(* up / down as in the code), one result channel of capacity 1 per waiter,    *)
(* and a single event-loop goroutine that handles Add / Notify / Sweep / Len  *)
(* one at a time and can BLOCK when it sends on a full channel.               *)
(* SweepMode = "asis" is the sweep as written at the pinned commit (marks     *)
(* cancelled waiters revision 0, Fix(0), pops revision-0 roots); "fixed" is   *)
(* the repaired sweep (answer and remove every cancelled waiter, re-heapify). *)
EXTENDS Integers, Sequences, FiniteSets, TLC, Json

CONSTANTS Waiters,      \* waiter ids 1..N
          Tables, Revs, MaxSteps, SweepMode, Record, Sample

VARIABLES heap,     \* table -> sequence of waiter ids (the heap array)
          rev,      \* waiter -> revision as stored in the item (the as-is sweep overwrites it with 0)
          want,     \* waiter -> [t, r] as requested ("none" before Add)
          state,    \* waiter -> "new" | "waiting" | "gone" (removed from the heap)
          cancelled,\* waiter -> context ended
          chan,     \* waiter -> number of errors buffered in its channel (capacity 1)
          closed,   \* waiter -> channel closed (= success)
          got,      \* waiter -> sequence of answers the caller has received
          blocked,  \* the event loop is stuck sending on a full channel
          notified, \* GHOST table -> set of revisions notified after... (waiter -> set) see below
          seen,     \* GHOST waiter -> highest revision notified for its table since it was added
          steps, hist
vars == <<heap, rev, want, state, cancelled, chan, closed, got, blocked, notified, seen, steps, hist>>

Init == /\ heap = [t \in Tables |-> <<>>]
        /\ rev = [w \in Waiters |-> 0]
        /\ want = [w \in Waiters |-> [t |-> "none", r |-> 0]]
        /\ state = [w \in Waiters |-> "new"]
        /\ cancelled = [w \in Waiters |-> FALSE]
        /\ chan = [w \in Waiters |-> 0]
        /\ closed = [w \in Waiters |-> FALSE]
        /\ got = [w \in Waiters |-> <<>>]
        /\ blocked = FALSE
        /\ notified = [t \in Tables |-> -1]
        /\ seen = [w \in Waiters |-> -1]
        /\ steps = 0 /\ hist = <<>>

Log(e) == hist' = IF Record THEN Append(hist, e) ELSE hist
Tick == steps < MaxSteps /\ steps' = steps + 1

(***************************************************************************)
(* util/heap on a sequence h of waiter ids, ordered by rv (a function).    *)
(* Indices are 0-based in the code; here position p = index + 1.           *)
(***************************************************************************)
Less(rv, a, b) == rv[a] < rv[b]
Swap(h, i, j) == [h EXCEPT ![i] = h[j], ![j] = h[i]]

RECURSIVE Up(_, _, _)
Up(h, rv, j) ==            \* j: 1-based position
  LET i == ((j - 2) \div 2) + 1 IN      \* parent of 0-based (j-1) is (j-2) div 2
  IF j = 1 \/ ~Less(rv, h[j], h[i]) THEN h ELSE Up(Swap(h, i, j), rv, i)

RECURSIVE Down(_, _, _, _)
Down(h, rv, i, n) ==       \* returns [h, moved]
  LET j1 == 2 * i IN       \* left child of 0-based (i-1) is 2(i-1)+1 -> position 2i
  IF j1 > n THEN [h |-> h, pos |-> i]
  ELSE LET j == IF j1 + 1 <= n /\ Less(rv, h[j1 + 1], h[j1]) THEN j1 + 1 ELSE j1 IN
       IF ~Less(rv, h[j], h[i]) THEN [h |-> h, pos |-> i]
       ELSE Down(Swap(h, i, j), rv, j, n)

Push(h, rv, w) == Up(Append(h, w), rv, Len(h) + 1)
Pop(h, rv) == LET n == Len(h)
                  s == Swap(h, 1, n)
                  d == Down(s, rv, 1, n - 1)
              IN SubSeq(d.h, 1, n - 1)
Fix0(h, rv) == IF h = <<>> THEN h ELSE LET d == Down(h, rv, 1, Len(h)) IN d.h   \* Fix(0): down, (up is a no-op at the root)
\* heap.New(less, items...): heapify
RECURSIVE HeapifyFrom(_, _, _)
HeapifyFrom(h, rv, i) == IF i < 1 THEN h ELSE HeapifyFrom(Down(h, rv, i, Len(h)).h, rv, i - 1)
Heapify(h, rv) == HeapifyFrom(h, rv, Len(h) \div 2)

(***************************************************************************)
(* callers                                                                 *)
(***************************************************************************)
\* Add: the loop takes the item from the unbuffered add channel and pushes it
Add(w, t, r) ==
  /\ Tick /\ ~blocked /\ state[w] = "new"
  /\ want' = [want EXCEPT ![w] = [t |-> t, r |-> r]]
  /\ rev' = [rev EXCEPT ![w] = r]
  /\ heap' = [heap EXCEPT ![t] = Push(@, rev', w)]
  /\ state' = [state EXCEPT ![w] = "waiting"]
  /\ seen' = [seen EXCEPT ![w] = -1]
  /\ Log([a |-> "add", w |-> w, t |-> t, r |-> r])
  /\ UNCHANGED <<cancelled, chan, closed, got, blocked, notified>>

\* the caller's context ends (deadline or cancellation) - an external event, any time
Cancel(w) ==
  /\ Tick /\ state[w] # "new" /\ ~cancelled[w]
  /\ cancelled' = [cancelled EXCEPT ![w] = TRUE]
  /\ Log([a |-> "cancel", w |-> w])
  /\ UNCHANGED <<heap, rev, want, state, chan, closed, got, blocked, notified, seen>>

\* the caller receives from its channel
Read(w) ==
  /\ Tick /\ state[w] # "new" /\ (chan[w] > 0 \/ closed[w]) /\ Len(got[w]) < 3
  /\ IF chan[w] > 0
     THEN chan' = [chan EXCEPT ![w] = @ - 1] /\ got' = [got EXCEPT ![w] = Append(@, "err")]
     ELSE chan' = chan /\ got' = [got EXCEPT ![w] = Append(@, "ok")]
  /\ Log([a |-> "read", w |-> w])
  /\ UNCHANGED <<heap, rev, want, state, cancelled, closed, blocked, notified, seen>>

(***************************************************************************)
(* event loop                                                              *)
(***************************************************************************)
\* Notify(t, r): pop from the root while the root is cancelled or its revision <= r.
\* Returns the new heap, channel counts, closed flags, states, or blocks.
RECURSIVE NotifyLoop(_, _, _, _, _, _, _)
NotifyLoop(h, r, ch, cl, st, n, i) ==
  IF i >= n \/ h = <<>> THEN [h |-> h, ch |-> ch, cl |-> cl, st |-> st, blocked |-> FALSE]
  ELSE LET w == h[1] IN
       IF cancelled[w]
       THEN IF ch[w] >= 1 THEN [h |-> h, ch |-> ch, cl |-> cl, st |-> st, blocked |-> TRUE]
            ELSE NotifyLoop(Pop(h, rev), r, [ch EXCEPT ![w] = @ + 1], cl, [st EXCEPT ![w] = "gone"], n, i + 1)
       ELSE IF rev[w] <= r
            THEN NotifyLoop(Pop(h, rev), r, ch, [cl EXCEPT ![w] = TRUE], [st EXCEPT ![w] = "gone"], n, i + 1)
            ELSE [h |-> h, ch |-> ch, cl |-> cl, st |-> st, blocked |-> FALSE]

Notify(t, r) ==
  /\ Tick /\ ~blocked
  /\ \E x \in {NotifyLoop(heap[t], r, chan, closed, state, Len(heap[t]), 0)} :
       /\ heap' = [heap EXCEPT ![t] = x.h]
       /\ chan' = x.ch /\ closed' = x.cl /\ state' = x.st /\ blocked' = x.blocked
  /\ notified' = [notified EXCEPT ![t] = IF r > @ THEN r ELSE @]
  /\ seen' = [w \in Waiters |-> IF state[w] = "waiting" /\ want[w].t = t /\ r > seen[w] THEN r ELSE seen[w]]
  /\ Log([a |-> "notify", t |-> t, r |-> r])
  /\ UNCHANGED <<rev, want, cancelled, got>>

\* the periodic sweep, per table
\* as-is: mark every cancelled waiter (revision := 0, send its error), Fix(0), then pop revision-0 roots
RECURSIVE MarkLoop(_, _, _, _)
MarkLoop(h, i, rv, ch) ==
  IF i > Len(h) THEN [rv |-> rv, ch |-> ch, blocked |-> FALSE]
  ELSE LET w == h[i] IN
       IF cancelled[w]
       THEN IF ch[w] >= 1 THEN [rv |-> [rv EXCEPT ![w] = 0], ch |-> ch, blocked |-> TRUE]
            ELSE MarkLoop(h, i + 1, [rv EXCEPT ![w] = 0], [ch EXCEPT ![w] = @ + 1])
       ELSE MarkLoop(h, i + 1, rv, ch)

RECURSIVE PopZeros(_, _, _, _, _)
PopZeros(h, rv, st, n, i) ==
  IF i >= n \/ h = <<>> THEN [h |-> h, st |-> st]
  ELSE IF rv[h[1]] = 0 THEN PopZeros(Pop(h, rv), rv, [st EXCEPT ![h[1]] = "gone"], n, i + 1)
       ELSE [h |-> h, st |-> st]

SweepAsIs(t) ==
  \E m \in {MarkLoop(heap[t], 1, rev, chan)} :
     IF m.blocked
     THEN /\ blocked' = TRUE /\ rev' = m.rv /\ chan' = m.ch /\ UNCHANGED <<heap, state>>
     ELSE \E p \in {PopZeros(Fix0(heap[t], m.rv), m.rv, state, Len(heap[t]), 0)} :
            /\ heap' = [heap EXCEPT ![t] = p.h] /\ state' = p.st
            /\ rev' = m.rv /\ chan' = m.ch /\ blocked' = FALSE

\* fixed: every cancelled waiter is answered once and removed, the rest is re-heapified
SweepFixed(t) ==
  LET h == heap[t]
      dead == {i \in 1..Len(h) : cancelled[h[i]]}
      kept == SelectSeq(h, LAMBDA w : ~cancelled[w])
  IN IF \E i \in dead : chan[h[i]] >= 1
     THEN blocked' = TRUE /\ UNCHANGED <<heap, state, rev, chan>>     \* cannot happen: answered waiters are removed
     ELSE /\ heap' = [heap EXCEPT ![t] = Heapify(kept, rev)]
          /\ chan' = [w \in Waiters |-> IF \E i \in dead : h[i] = w THEN chan[w] + 1 ELSE chan[w]]
          /\ state' = [w \in Waiters |-> IF \E i \in dead : h[i] = w THEN "gone" ELSE state[w]]
          /\ rev' = rev /\ blocked' = FALSE

Sweep(t) ==
  /\ Tick /\ ~blocked
  /\ IF SweepMode = "asis" THEN SweepAsIs(t) ELSE SweepFixed(t)
  /\ Log([a |-> "sweep", t |-> t])
  /\ UNCHANGED <<want, cancelled, closed, got, notified, seen>>

Next == \/ \E w \in Waiters, t \in Tables, r \in Revs : Add(w, t, r)
        \/ \E w \in Waiters : Cancel(w) \/ Read(w)
        \/ \E t \in Tables, r \in Revs : Notify(t, r)
        \/ \E t \in Tables : Sweep(t)
Spec == Init /\ [][Next]_vars

(***************************************************************************)
(* C11                                                                     *)
(***************************************************************************)
NeverWedged == ~blocked
Answers(w) == Len(got[w]) + chan[w] + (IF closed[w] /\ ~(\E i \in 1..Len(got[w]) : got[w][i] = "ok") THEN 1 ELSE 0)
\* exactly one answer per call: never two, and a waiter that left the queue has one
AtMostOneAnswer == \A w \in Waiters : chan[w] + (IF closed[w] THEN 1 ELSE 0) <= 1 /\ Cardinality({i \in 1..Len(got[w]) : got[w][i] = "err"}) <= 1
GoneIsAnswered == \A w \in Waiters : state[w] = "gone" => (closed[w] \/ chan[w] > 0 \/ got[w] # <<>>)
\* success only after a notification at or beyond the requested revision; error only after the context ended
SuccessJustified == \A w \in Waiters : closed[w] => seen[w] >= want[w].r
ErrorJustified == \A w \in Waiters : (chan[w] > 0 \/ (\E i \in 1..Len(got[w]) : got[w][i] = "err")) => cancelled[w]
\* a notification releases every live waiter at or below it: none is left behind in the heap
NoneLeftBehind == \A w \in Waiters : (state[w] = "waiting" /\ ~cancelled[w] /\ ~blocked) => seen[w] < want[w].r
HeapOrdered == \A t \in Tables : \A j \in 2..Len(heap[t]) : ~Less(rev, heap[t][j], heap[t][((j - 2) \div 2) + 1])

Export == steps = MaxSteps /\ Record /\ (Sample = 0 \/ RandomElement(1..Sample) = 1) =>
            PrintT("BEHAVIOUR " \o ToJson([steps |-> hist]))
=============================================================================
