----------------------------- MODULE TableApply -----------------------------
(* IMPLEMENTATION-SHAPED specification of storage/table/fsm: the Pebble      *)
(* store over ENCODED keys including the bookkeeping keys, write batches     *)
(* (plain / indexed), the update context with its carried local and leader   *)
(* index, one operator per handler of command_*.go / query.go / iter.go,     *)
(* and FSM.Update as "parse, handle, ..., Commit" over one apply batch.      *)
(* MC_TableApply checks that this refines the abstract Table (C01-C03, C09,  *)
(* C12) for every command, every read and every batching in a bounded        *)
(* universe.                                                                 *)
EXTENDS Table, KeyEnc

CONSTANTS MaxRange,     \* fsm.maxRangeSize (4 MiB - 1 KiB in the code)
          Overhead      \* abstraction of the per-pair protobuf overhead in SizeVT

(***************************************************************************)
(* Pebble: a store is a function from encoded keys to values; a batch is a *)
(* sequence of Set/Delete/DeleteRange.  Bytewise comparer.                 *)
(***************************************************************************)
EmptyStore == [k \in {} |-> <<>>]

ApplyOp(s, o) ==
  CASE o.op = "set"      -> [x \in DOMAIN s \cup {o.k} |-> IF x = o.k THEN o.v ELSE s[x]]
    [] o.op = "del"      -> [x \in DOMAIN s \ {o.k} |-> s[x]]
    [] o.op = "delrange" -> [x \in {y \in DOMAIN s : ~(Leq(o.k, y) /\ Less(y, o.hi))} |-> s[x]]

RECURSIVE ApplyOps(_, _)
ApplyOps(s, ops) == IF ops = <<>> THEN s ELSE ApplyOps(ApplyOp(s, Head(ops)), Tail(ops))

\* iterator with bounds [lo, hi): the keys it visits, ascending
IterKeys(view, lo, hi) == Sorted({k \in DOMAIN view : Leq(lo, k) /\ Less(k, hi)})

\* SeekPrefixGE with Split = len(key): the prefix is the whole key => exact match only
SeekPrefixGE(view, ek) == ek \in DOMAIN view

(***************************************************************************)
(* updateContext (command.go)                                              *)
(***************************************************************************)
\* li: leaderIndex; pli: prevLeaderIndex (the leader index set by the entries of this update before the current one)
NewCtx(db) == [db |-> db, ops |-> <<>>, indexed |-> FALSE, index |-> 0, li |-> NoLI, pli |-> NoLI, bad |-> FALSE]

EnsureIndexed(ctx) == [ctx EXCEPT !.indexed = TRUE]
AddOp(ctx, o) == [ctx EXCEPT !.ops = Append(@, o)]
\* what a read through ctx.batch sees; reading a batch that is not indexed is a bug (ghost flag)
View(ctx) == ApplyOps(ctx.db, ctx.ops)
MarkRead(ctx) == IF ctx.indexed THEN ctx ELSE [ctx EXCEPT !.bad = TRUE]

(***************************************************************************)
(* query.go / iter.go                                                      *)
(***************************************************************************)
EmptyResp == [t |-> "range", kvs |-> <<>>, count |-> 0, more |-> FALSE]

\* iterOptionsForBounds
LowerFor(low)  == EncUser(low)
UpperFor(high) == IF high = Wild THEN WildBound ELSE EncUser(high)

\* sizeEntriesFunc / fillEntriesFunc (keys_only is tested before count_only)
PairSize(op, k, v) == IF op.keysOnly THEN Len(k) ELSE IF op.countOnly THEN 0 ELSE Len(k) + Len(v)
RECURSIVE RespSize(_)
RespSize(kvs) == IF kvs = <<>> THEN 0
                 ELSE Len(Head(kvs).k) + Len(Head(kvs).v) + Overhead + RespSize(Tail(kvs))
Fill(op, k, v, resp) ==
  IF op.keysOnly THEN [resp EXCEPT !.kvs = Append(@, [k |-> k, v |-> <<>>]), !.count = @ + 1]
  ELSE IF op.countOnly THEN [resp EXCEPT !.count = @ + 1]
  ELSE [resp EXCEPT !.kvs = Append(@, [k |-> k, v |-> v]), !.count = Len(resp.kvs) + 1]

\* iterate(): the sequence of chunks the lazy sequence yields
RECURSIVE IterLoop(_, _, _, _, _, _)
IterLoop(view, keys, pos, i, resp, op) ==
  LET ek == keys[pos]
      k  == DecKey(ek)
      v  == view[ek]
  IN IF i = op.limit /\ op.limit # 0
     THEN <<[resp EXCEPT !.more = TRUE]>>        \* positioned on a valid pair beyond the limit
     ELSE LET cut    == RespSize(resp.kvs) + PairSize(op, k, v) >= MaxRange
              pre    == IF cut THEN <<[resp EXCEPT !.more = TRUE]>> ELSE <<>>
              filled == Fill(op, k, v, IF cut THEN EmptyResp ELSE resp)
          IN IF pos = Len(keys) THEN pre \o <<filled>>
             ELSE pre \o IterLoop(view, keys, pos + 1, i + 1, filled, op)

Iterate(view, op) ==
  LET keys == IterKeys(view, LowerFor(op.k), UpperFor(op.end))
  IN IF keys = <<>> THEN <<EmptyResp>> ELSE IterLoop(view, keys, 1, 0, EmptyResp, op)

SingleLookup(view, op) ==
  LET ek == EncUser(op.k) IN
  IF ~SeekPrefixGE(view, ek) THEN EmptyResp
  ELSE [t |-> "range",
        kvs |-> IF op.countOnly THEN <<>>
                ELSE <<[k |-> op.k, v |-> IF op.keysOnly \/ op.countOnly THEN <<>> ELSE view[ek]]>>,
        count |-> 1, more |-> FALSE]

\* lookup(): unary reads take the first chunk
Lookup(view, op) == IF op.end # NoEnd THEN Head(Iterate(view, op)) ELSE SingleLookup(view, op)
\* iteratorLookup()
IterLookup(view, op) == IF op.end # NoEnd THEN Iterate(view, op) ELSE <<SingleLookup(view, op)>>

ReadIndex(view, key) == IF key \in DOMAIN view THEN view[key][1] ELSE 0

(***************************************************************************)
(* command_put.go / command_delete.go                                      *)
(***************************************************************************)
PlainRead(k, end, countOnly) ==
  [t |-> "range", k |-> k, end |-> end, limit |-> 0, keysOnly |-> FALSE, countOnly |-> countOnly]

HandlePut(ctx, op) ==
  LET c1   == IF op.prev THEN MarkRead(EnsureIndexed(ctx)) ELSE ctx
      rng  == IF op.prev THEN SingleLookup(View(c1), PlainRead(op.k, NoEnd, FALSE)) ELSE EmptyResp
      prev == IF Len(rng.kvs) = 1 THEN <<rng.kvs[1]>> ELSE <<>>
  IN [ctx |-> AddOp(c1, [op |-> "set", k |-> EncUser(op.k), v |-> op.v]),
      r   |-> <<[t |-> "put", prev |-> prev]>>]

HandleDelete(ctx, op) ==
  LET need == op.prev \/ op.count
      c1   == IF need THEN MarkRead(EnsureIndexed(ctx)) ELSE ctx
      rop  == PlainRead(op.k, op.end, op.count /\ ~op.prev)
  IN IF op.end # NoEnd
     THEN LET rng == IF need THEN Head(Iterate(View(c1), rop)) ELSE EmptyResp
          IN [ctx |-> AddOp(c1, [op |-> "delrange", k |-> EncUser(op.k), hi |-> UpperFor(op.end)]),
              r   |-> <<[t |-> "del", deleted |-> rng.count, prev |-> rng.kvs]>>]
     ELSE LET rng == IF need THEN SingleLookup(View(c1), rop) ELSE EmptyResp
          IN [ctx |-> AddOp(c1, [op |-> "del", k |-> EncUser(op.k)]),
              r   |-> <<[t |-> "del", deleted |-> rng.count, prev |-> rng.kvs]>>]

(***************************************************************************)
(* command_txn.go                                                          *)
(***************************************************************************)
TxnCmpOne(view, c) ==
  IF c.end # NoEnd
  THEN LET keys == IterKeys(view, LowerFor(c.k), UpperFor(c.end))
       IN keys # <<>> /\ \A i \in 1..Len(keys) : CmpSingle(c, view[keys[i]])
  ELSE LET ek == EncUser(c.k) IN ek \in DOMAIN view /\ CmpSingle(c, view[ek])

TxnCmp(view, cmps) == \A i \in 1..Len(cmps) : TxnCmpOne(view, cmps[i])

HandleTxnOp(ctx, op) ==
  CASE op.t = "range" -> [ctx |-> MarkRead(ctx), r |-> <<Lookup(View(ctx), op)>>]
    [] op.t = "put"   -> HandlePut(ctx, op)
    [] op.t = "del"   -> HandleDelete(ctx, op)
    [] op.t = "none"  -> [ctx |-> ctx, r |-> <<>>]

RECURSIVE HandleTxnOps(_, _)
HandleTxnOps(ctx, ops) ==
  IF ops = <<>> THEN [ctx |-> ctx, r |-> <<>>]
  ELSE LET h == HandleTxnOp(ctx, Head(ops))
           t == HandleTxnOps(h.ctx, Tail(ops))
       IN [ctx |-> t.ctx, r |-> h.r \o t.r]

HandleTxn(ctx, c) ==
  LET c1 == MarkRead(EnsureIndexed(ctx))
      ok == TxnCmp(View(c1), c.cmp)
      x  == HandleTxnOps(c1, IF ok THEN c.succ ELSE c.fail)
  IN [ctx |-> x.ctx, ok |-> ok, r |-> x.r]

(***************************************************************************)
(* command.go wrapCommand / handle                                         *)
(***************************************************************************)
\* oli: the leader index carried by the command itself (entry's for a top-level command, sli for one in a sequence)
RECURSIVE Handle(_, _, _)
Handle(ctx, c, oli) ==
  CASE c.t = "PUT"   -> LET x == HandlePut(ctx, c) IN [ctx |-> x.ctx, val |-> 1, r |-> x.r]
    [] c.t = "DEL"   -> LET x == HandleDelete(ctx, c) IN [ctx |-> x.ctx, val |-> 1, r |-> x.r]
    [] c.t = "PUTB"  ->
         LET x == HandleTxnOps(ctx, [i \in 1..Len(c.kvs) |->
                    [t |-> "put", k |-> c.kvs[i].k, v |-> c.kvs[i].v, prev |-> FALSE]])
         IN [ctx |-> x.ctx, val |-> 1, r |-> x.r]
    [] c.t = "DELB"  ->
         LET x == HandleTxnOps(ctx, [i \in 1..Len(c.ks) |->
                    [t |-> "del", k |-> c.ks[i], end |-> NoEnd, prev |-> FALSE, count |-> FALSE]])
         IN [ctx |-> x.ctx, val |-> 1, r |-> x.r]
    [] c.t = "TXN"   -> LET x == HandleTxn(ctx, c) IN
                        [ctx |-> x.ctx, val |-> IF x.ok THEN 1 ELSE 0, r |-> x.r]
    [] c.t = "SEQ"   ->
         \* commandSequence.handle: recordedLeaderIndex() reads the DB (not the batch) unless an earlier entry of this
         \* update carried a leader index; commands at or below it are skipped; the index is not moved backwards
         LET rec  == IF ctx.pli # NoLI THEN ctx.pli ELSE ReadIndex(ctx.db, SysLeaderIndex)
             ctx0 == IF oli # NoLI /\ oli < rec THEN [ctx EXCEPT !.li = rec] ELSE ctx
             keep == SelectSeq(c.cmds, LAMBDA s : SubLI(s) = NoLI \/ SubLI(s) > rec)
             F[i \in 0..Len(keep)] ==
               IF i = 0 THEN [ctx |-> ctx0, r |-> <<>>]
               ELSE LET y == Handle(F[i - 1].ctx, keep[i], SubLI(keep[i]))
                    IN [ctx |-> y.ctx, r |-> F[i - 1].r \o y.r]
         IN [ctx |-> F[Len(keep)].ctx, val |-> 1, r |-> F[Len(keep)].r]
    [] c.t = "DUMMY" -> [ctx |-> ctx, val |-> 1, r |-> <<>>]

(***************************************************************************)
(* fsm.go FSM.Update: one apply batch.  entries: seq of [i, c, li].        *)
(* parseCommand sets ctx.index and (when the command carries one) the      *)
(* leader index; Commit writes the leader index if the context carries     *)
(* one, then the local index, and commits the batch atomically.            *)
(***************************************************************************)
RECURSIVE UpdateLoop(_, _)
UpdateLoop(ctx, es) ==
  IF es = <<>> THEN [ctx |-> ctx, res |-> <<>>]
  ELSE LET e  == Head(es)
           c1 == [ctx EXCEPT !.index = e.i, !.pli = ctx.li, !.li = IF e.li # NoLI THEN e.li ELSE @]
           h  == Handle(c1, e.c, e.li)
           \* Result.Data (revision + responses) when there are responses, and always for a transaction
           hd == h.r # <<>> \/ e.c.t = "TXN"
           re == [val |-> h.val, data |-> hd, rev |-> IF hd THEN e.i ELSE 0, rs |-> h.r]
           t  == UpdateLoop(h.ctx, Tail(es))
       IN [ctx |-> t.ctx, res |-> <<re>> \o t.res]

Commit(ctx) ==
  LET c1 == IF ctx.li # NoLI THEN AddOp(ctx, [op |-> "set", k |-> SysLeaderIndex, v |-> <<ctx.li>>]) ELSE ctx
      c2 == AddOp(c1, [op |-> "set", k |-> SysLocalIndex, v |-> <<ctx.index>>])
  IN ApplyOps(c2.db, c2.ops)

Update(db, es) ==
  LET x == UpdateLoop(NewCtx(db), es)
  IN [db |-> Commit(x.ctx), res |-> x.res, bad |-> x.ctx.bad,
      notify |-> IF x.ctx.li # NoLI THEN x.ctx.li ELSE x.ctx.index]   \* appliedFunc argument

(***************************************************************************)
(* Refinement mapping                                                      *)
(***************************************************************************)
UserKeys(db) == {DecKey(e) : e \in {x \in DOMAIN db : DecType(x) = TypeUser}}
Decode(db) == [k \in UserKeys(db) |-> db[EncUser(k)]]
AbsOf(db) == [kv |-> Decode(db), idx |-> ReadIndex(db, SysLocalIndex), lidx |-> ReadIndex(db, SysLeaderIndex)]
=============================================================================
