------------------------------- MODULE Access -------------------------------
(* C17: who may call what.  (1) bearer tokens on the Tables and Maintenance   *)
(* services (cmd/common.go authFunc + per-service AuthFuncOverride behind the *)
(* global auth interceptor), (2) client certificates on a TLS endpoint        *)
(* (security/tls.go ServerConfig).  A decision model: the cases are           *)
(* enumerated by TLC, the expected decision comes from these operators.       *)
EXTENDS Integers, Sequences, FiniteSets, TLC, Json

(***************************************************************************)
(* tokens                                                                  *)
(***************************************************************************)
Services == {"KV", "Tables", "Maintenance"}
Methods == [KV |-> {"Range", "IterateRange"}, Tables |-> {"Create", "Delete", "List"}, Maintenance |-> {"Backup", "Restore", "Reset"}]
Configured == {"none", "T"}           \* token configured for the service the method belongs to
\* what the caller presents in the authorization metadata
Presented == {"none", "empty", "right", "prefix", "suffix", "case", "other", "basic_right", "lower_scheme_right", "right_other_service"}

TokenCases == {[svc |-> s, m |-> m, conf |-> c, pres |-> p, role |-> r] :
                 s \in Services, m \in UNION {Methods[x] : x \in Services}, c \in Configured, p \in Presented, r \in {"leader", "follower"}}
TokenUniverse == {c \in TokenCases : c.m \in Methods[c.svc] /\ (c.svc = "KV" => c.conf = "none")
                                     /\ (c.role = "follower" => ~(c.svc = "Maintenance" /\ c.m \in {"Backup", "Restore"}))
                                     /\ (c.role = "leader" => ~(c.svc = "Maintenance" /\ c.m = "Reset"))}

\* "every method of the corresponding service fails with Unauthenticated for calls that carry no bearer token or a
\* different one"; the scheme is matched case-insensitively by the library, which the property does not pin
TokenDecision(c) ==
  IF c.conf = "none" THEN "allow"
  ELSE IF c.pres = "right" THEN "allow"
  ELSE IF c.pres = "lower_scheme_right" THEN "open"
  ELSE "deny"

TokenOutcomeOK(c, code, changed) ==
  CASE TokenDecision(c) = "deny"  -> code = "Unauthenticated" /\ ~changed       \* and has no effect
    [] TokenDecision(c) = "allow" -> code # "Unauthenticated"
    [] OTHER -> (code = "Unauthenticated" => ~changed)

(***************************************************************************)
(* certificates                                                            *)
(***************************************************************************)
\* server: trusted CA file?  client-cert-auth flag?  allowed CN / allowed hostname / neither
ServerCfgs == {[ca |-> ca, cca |-> cca, allow |-> a] : ca \in BOOLEAN, cca \in BOOLEAN, a \in {"none", "cn", "host"}}
\* client certificates
ClientCerts == {"none", "selfsigned_rightcn", "otherca_rightcn", "ca_rightcn", "ca_wrongcn", "ca_emptycn", "ca_cn_prefix", "ca_cn_case",
                "ca_rightsan", "ca_wrongsan", "ca_rightcn_wrongsan", "ca_wrongcn_rightsan",
                "ca_wrong_via_intermediate_named_right"}    \* leaf wrong, issued by an intermediate whose own name is the allowed one
TlsUniverse == {[srv |-> s, cert |-> c] : s \in ServerCfgs, c \in ClientCerts}

ChainsToCA(c) == c \notin {"none", "selfsigned_rightcn", "otherca_rightcn"}
HasRightCN(c) == c \in {"selfsigned_rightcn", "otherca_rightcn", "ca_rightcn", "ca_rightcn_wrongsan"}
\* valid for the allowed hostname: a matching DNS SAN (Go ignores the CN for hostname verification)
ValidForHost(c) == c \in {"ca_rightsan", "ca_wrongcn_rightsan"}

TlsDecision(x) ==
  LET s == x.srv  c == x.cert IN
  IF ~s.ca /\ ~s.cca THEN "accept"                                    \* no client authentication configured at all
  ELSE IF ~s.ca THEN "open"                                           \* client-cert-auth without a CA: no trust anchor; not covered by the property
  ELSE IF ~ChainsToCA(c) THEN "reject"                                \* must chain to the trusted CA
  ELSE CASE s.allow = "none" -> "accept"
         [] s.allow = "cn"   -> IF HasRightCN(c) THEN "accept" ELSE "reject"          \* exactly that common name
         [] s.allow = "host" -> IF ValidForHost(c) THEN "accept" ELSE "reject"        \* valid for that hostname

TlsOutcomeOK(x, accepted) ==
  CASE TlsDecision(x) = "accept" -> accepted
    [] TlsDecision(x) = "reject" -> ~accepted
    [] OTHER -> TRUE
=============================================================================
