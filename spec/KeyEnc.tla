------------------------------- MODULE KeyEnc -------------------------------
(* storage/table/key: Encode = 4-byte header <<version,0,0,0>>, one type     *)
(* byte, then the key bytes.  fsm.go: system keys, maxUserKey, wildcard bound *)
EXTENDS Bytes

CONSTANT MaxKeyLen      \* length of key.LatestMaxKey (1019 in the code)

V1 == 1
TypeUser == 1
TypeSystem == 2

Header == <<V1, 0, 0, 0>>
Enc(type, k) == Header \o <<type>> \o k
EncUser(k) == Enc(TypeUser, k)

\* key.DecodeBytes + v1DecodeRaw: type and key are only extracted when the body has more than one byte
DecType(e) == IF Len(e) > 5 THEN e[5] ELSE 0
DecKey(e)  == IF Len(e) > 5 THEN SubSeq(e, 6, Len(e)) ELSE <<>>

\* "index" / "leader_index" as bytes
SysLocalIndex  == Enc(TypeSystem, <<105, 110, 100, 101, 120>>)
SysLeaderIndex == Enc(TypeSystem, <<108, 101, 97, 100, 101, 114, 95, 105, 110, 100, 101, 120>>)

MaxUserKey == EncUser([i \in 1..MaxKeyLen |-> 255])
\* upper bound used for the '\0' wildcard: increment of the maximal user key
WildBound == IncRightmost(MaxUserKey)
=============================================================================
