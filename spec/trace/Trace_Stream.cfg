SPECIFICATION TSpec
CONSTANTS
  TraceFile = "trace.ndjson"
  Deviations = {}
POSTCONDITION TraceAccepted
CHECK_DEADLOCK FALSE
