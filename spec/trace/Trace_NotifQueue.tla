--------------------------- MODULE Trace_NotifQueue ---------------------------
(* C11 on the real storage.IndexNotificationQueue.  The trace specification   *)
(* is ABSTRACT: it knows waiters, notifications, cancellations and answers,   *)
(* not heaps.  After every step the driver makes a round trip through the     *)
(* event loop (Len) - a wedged loop is an observation - and inspects every    *)
(* waiter's channel without consuming it.                                     *)
EXTENDS Integers, Sequences, FiniteSets, Json, TLC

CONSTANTS TraceFile, Deviations
TraceLog == ndJsonDeserialize(TraceFile)

W == 1..24
VARIABLES l,
          added, tab, rq,     \* waiter -> added?, table, requested revision
          cancelled,          \* waiter -> context ended
          seen,               \* waiter -> highest revision notified for its table since it was added
          errs, oks,          \* waiter -> answers consumed by the caller
          sweeps,             \* waiter -> completed sweeps since its cancellation
          applied,            \* table -> highest revision notified so far (what the node has applied)
          early               \* waiter -> its revision had ALREADY been applied when it was added
vars == <<l, added, tab, rq, cancelled, seen, errs, oks, sweeps, applied, early>>

Dev(name) == name \in Deviations /\ TLCSet(7, TLCGet(7) \cup {name})
\* disjunction that TLC does not enumerate as alternative successors (a plain \/ inside an action under a quantifier
\* over 20 waiters makes 2^k identical successors)
Or(a, b) == IF a THEN TRUE ELSE b
Justified(w) == Or(seen[w] >= rq[w], early[w])
Tabs == {"t", "u"} \cup {"f1", "f2", "f3", "f4", "f5", "f6", "f7", "f8", "f9", "f10", "f11", "f12", "f13", "f14", "f15", "f16",
                     "f17", "f18", "f19", "f20", "f21", "f22"}      \* f<n>: tables of the first-Add stage
Ev == TraceLog[l]
IsEvent(name) == l <= Len(TraceLog) /\ Ev.ev = name /\ l' = l + 1

TInit == /\ l = 1 /\ added = [w \in W |-> FALSE] /\ tab = [w \in W |-> ""] /\ rq = [w \in W |-> 0]
         /\ cancelled = [w \in W |-> FALSE] /\ seen = [w \in W |-> -1]
         /\ errs = [w \in W |-> 0] /\ oks = [w \in W |-> 0] /\ sweeps = [w \in W |-> 0]
         /\ applied = [x \in Tabs |-> -1] /\ early = [w \in W |-> FALSE] /\ TLCSet(7, {})

TAdd == /\ IsEvent("add") /\ ~added[Ev.w]
        /\ added' = [added EXCEPT ![Ev.w] = TRUE] /\ tab' = [tab EXCEPT ![Ev.w] = Ev.t] /\ rq' = [rq EXCEPT ![Ev.w] = Ev.r]
        /\ early' = [early EXCEPT ![Ev.w] = applied[Ev.t] >= Ev.r]
        /\ UNCHANGED <<cancelled, seen, errs, oks, sweeps, applied>>
TCancel == /\ IsEvent("cancel")
           /\ cancelled' = [cancelled EXCEPT ![Ev.w] = TRUE] /\ sweeps' = [sweeps EXCEPT ![Ev.w] = 0]
           /\ UNCHANGED <<added, tab, rq, seen, errs, oks, applied, early>>
TNotify == /\ IsEvent("notify")
           /\ seen' = [w \in W |-> IF added[w] /\ tab[w] = Ev.t /\ Ev.r > seen[w] THEN Ev.r ELSE seen[w]]
           /\ applied' = [applied EXCEPT ![Ev.t] = IF Ev.r > @ THEN Ev.r ELSE @]
           /\ UNCHANGED <<added, tab, rq, cancelled, errs, oks, sweeps, early>>
TSweep == /\ IsEvent("sweep")
          /\ sweeps' = [w \in W |-> IF cancelled[w] THEN sweeps[w] + 1 ELSE sweeps[w]]
          /\ UNCHANGED <<added, tab, rq, cancelled, seen, errs, oks, applied, early>>

\* the caller receives from its channel: "err", "ok" (closed) or "none" (nothing there)
TRead ==
  /\ IsEvent("read")
  /\ CASE Ev.res = "err" -> /\ cancelled[Ev.w] /\ errs[Ev.w] = 0 /\ oks[Ev.w] = 0       \* error only after the context ended, once
                            /\ errs' = [errs EXCEPT ![Ev.w] = 1] /\ oks' = oks
       [] Ev.res = "ok"  -> /\ Justified(Ev.w) /\ errs[Ev.w] = 0                  \* success only after Notify(r' >= r)
                            /\ oks' = [oks EXCEPT ![Ev.w] = 1] /\ errs' = errs
       [] OTHER -> UNCHANGED <<errs, oks>>
  /\ UNCHANGED <<added, tab, rq, cancelled, seen, sweeps, applied, early>>

\* observation after a step: {"ev":"obs","wedged":bool,"avail":[0 none | 1 error buffered | 2 closed, per waiter]}
TObs ==
  /\ IsEvent("obs")
  /\ ~Ev.wedged                                              \* waiting callers never wedge the node
  /\ \A w \in 1..Len(Ev.avail) :
       LET a == Ev.avail[w] IN
       /\ (a = 1 => cancelled[w] /\ errs[w] = 0 /\ oks[w] = 0)        \* exactly one answer: never a second error
       /\ (a = 2 => Justified(w) /\ errs[w] = 0)     \* never success after an error, never unjustified
       \* answered as soon as the node has applied a revision at or beyond the write's
       /\ (added[w] /\ ~cancelled[w] /\ seen[w] >= rq[w] => a = 2)
       \* ... also when that had happened before the waiter arrived.
       \* KNOWN FINDING NotifyBeforeAdd: the queue forgets notifications that precede Add
       \* (IF, not a disjunction: TLC would enumerate a disjunction inside an action as alternative successors, 2^k of them)
       /\ (added[w] /\ ~cancelled[w] /\ early[w] /\ seen[w] < rq[w] => IF a = 2 THEN TRUE ELSE Dev("NotifyBeforeAdd"))
       \* answered with an error once cancellation has passed (at the latest two sweeps later)
       /\ (added[w] /\ cancelled[w] /\ sweeps[w] >= 2 /\ errs[w] = 0 /\ oks[w] = 0 => a \in {1, 2})
  /\ UNCHANGED <<added, tab, rq, cancelled, seen, errs, oks, sweeps, applied, early>>

\* ---- ForwardingKVServer layer: a write forwarded to the leader came back with revision Ev.r; the follower's API call
\* may only return once this node has applied a leader index >= r (read-your-writes on the follower)
TFwd == /\ IsEvent("fwd") /\ ~added[Ev.w]
        /\ added' = [added EXCEPT ![Ev.w] = TRUE] /\ tab' = [tab EXCEPT ![Ev.w] = Ev.t] /\ rq' = [rq EXCEPT ![Ev.w] = Ev.r]
        /\ early' = [early EXCEPT ![Ev.w] = applied[Ev.t] >= Ev.r]
        /\ UNCHANGED <<cancelled, seen, errs, oks, sweeps, applied>>
\* {"ev":"fwdobs","w":w,"returned":bool,"err":""}
TFwdObs ==
  /\ IsEvent("fwdobs")
  /\ (Ev.returned /\ Ev.err = "" => Justified(Ev.w))       \* acknowledged => already applied here
  /\ (~Ev.returned => ~(seen[Ev.w] >= rq[Ev.w]))                                   \* applied => answered
  /\ UNCHANGED <<added, tab, rq, cancelled, seen, errs, oks, sweeps, applied, early>>

TReset == /\ IsEvent("reset") /\ added' = [w \in W |-> FALSE] /\ tab' = [w \in W |-> ""] /\ rq' = [w \in W |-> 0]
          /\ cancelled' = [w \in W |-> FALSE] /\ seen' = [w \in W |-> -1]
          /\ errs' = [w \in W |-> 0] /\ oks' = [w \in W |-> 0] /\ sweeps' = [w \in W |-> 0]
          /\ applied' = [x \in Tabs |-> -1] /\ early' = [w \in W |-> FALSE]

TNext == TFwd \/ TFwdObs \/ TAdd \/ TCancel \/ TNotify \/ TSweep \/ TRead \/ TObs \/ TReset
TSpec == TInit /\ [][TNext]_vars

TraceAccepted ==
  LET d == TLCGet("stats").diameter IN
  /\ PrintT(<<"DEVIATIONS_USED", TLCGet(7)>>)
  /\ IF d - 1 = Len(TraceLog) THEN PrintT("TRACE_ACCEPTED")
     ELSE Print(<<"TRACE_REJECTED_AT_LINE", d>>, FALSE)
=============================================================================
