------------------------------ MODULE Trace_Repl ------------------------------
(* C05 end to end: a real leader engine behind the real replication services   *)
(* and a real follower engine with the real replication.Manager.               *)
(* "lwrite": the leader's acknowledged writes in revision order (replayed in   *)
(* the abstract Table: content of the leader table at every index).            *)
(* "fobs": one sample of the follower: recorded leader index before the read,  *)
(* full content, recorded leader index after the read; the driver places it    *)
(* right after the last leader write with revision <= that index, so kv IS the *)
(* leader content at the sample's index; "prev" is the index the previous      *)
(* sample of that table saw (sampling order).                                  *)
(* "fquiet": the situation after the leader stopped changing.                  *)
EXTENDS Table, Json, TLC

CONSTANTS TraceFile, Deviations
TraceLog == ndJsonDeserialize(TraceFile)

Tabs == {"t1", "t2"}
VARIABLES l, kv, lastRev
vars == <<l, kv, lastRev>>

Ev == TraceLog[l]
IsEvent(name) == l <= Len(TraceLog) /\ Ev.ev = name /\ l' = l + 1
TInit == l = 1 /\ kv = [t \in Tabs |-> EmptyKV] /\ lastRev = [t \in Tabs |-> 0]

TLWrite ==
  /\ IsEvent("lwrite")
  /\ LET t == Ev.table
         x == ApplyCmd(kv[t], Ev.c) IN
     /\ Ev.rev > lastRev[t]
     /\ Ev.val = x.val
     /\ kv' = [kv EXCEPT ![t] = x.kv]
     /\ lastRev' = [lastRev EXCEPT ![t] = Ev.rev]

RECURSIVE MapOf(_, _)
MapOf(mp, ps) == IF ps = <<>> THEN mp
                 ELSE MapOf([x \in DOMAIN mp \cup {Head(ps).k} |-> IF x = Head(ps).k THEN Head(ps).v ELSE mp[x]], Tail(ps))

\* the follower table equals the leader table AT ITS RECORDED LEADER INDEX (checked when the index did not move
\* during the read), and that index never moves backwards
TFObs ==
  /\ IsEvent("fobs")
  /\ Ev.li1 <= Ev.li2
  /\ Ev.li1 >= Ev.prev
  /\ Ev.li1 >= lastRev[Ev.table] \/ Ev.li1 # Ev.li2     \* (placement by the driver: no later leader write precedes it)
  /\ (Ev.li1 = Ev.li2 => /\ Len(Ev.kvs) = Cardinality({Ev.kvs[i].k : i \in 1..Len(Ev.kvs)})
                         /\ {<<Ev.kvs[i].k, Ev.kvs[i].v>> : i \in 1..Len(Ev.kvs)} = {<<k, kv[Ev.table][k]>> : k \in DOMAIN kv[Ev.table]})
  /\ UNCHANGED <<kv, lastRev>>

\* once the leader stops changing the follower reaches its latest state, and the table sets agree
TFQuiet ==
  /\ IsEvent("fquiet")
  /\ Ev.converged
  /\ {Ev.leader_tables[i] : i \in 1..Len(Ev.leader_tables)} = {Ev.follower_tables[i] : i \in 1..Len(Ev.follower_tables)}
  /\ UNCHANGED <<kv, lastRev>>

TReset == IsEvent("reset") /\ kv' = [t \in Tabs |-> EmptyKV] /\ lastRev' = [t \in Tabs |-> 0]

TNext == TLWrite \/ TFObs \/ TFQuiet \/ TReset
TSpec == TInit /\ [][TNext]_vars

TraceAccepted ==
  LET d == TLCGet("stats").diameter IN
  /\ PrintT(<<"DEVIATIONS_USED", {}>>)
  /\ IF d - 1 = Len(TraceLog) THEN PrintT("TRACE_ACCEPTED")
     ELSE Print(<<"TRACE_REJECTED_AT_LINE", d>>, FALSE)
=============================================================================
