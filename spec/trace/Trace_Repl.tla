------------------------------ MODULE Trace_Repl ------------------------------
(* C05 end to end: a real leader engine behind the real replication services   *)
(* and a real follower engine with the real replication.Manager.               *)
(* "lwrite": the leader's acknowledged writes in revision order (replayed in   *)
(* the abstract Table: content of the leader table at every index).            *)
(* "fobs": one sample of the follower: recorded leader index before the read,  *)
(* full content, recorded leader index after the read; the driver places it    *)
(* right after the last leader write with revision <= that index, so kv IS the *)
(* leader content at the sample's index; "prev" is the index the previous      *)
(* sample of that table saw (sampling order).                                  *)
(* "lrecreate": the leader deleted the table and created it again (another,    *)
(* empty table under the same name; samples of the follower's copy of the old  *)
(* one are placed before this event).                                          *)
(* "ffinal": the follower's content of a table after the leader stopped        *)
(* changing; "fquiet": the table sets and whether the indices were reached.    *)
EXTENDS Table, Json, TLC

CONSTANTS TraceFile, Deviations
TraceLog == ndJsonDeserialize(TraceFile)

Tabs == {"t1", "t2"}
VARIABLES l, kv, lastRev, recreated
vars == <<l, kv, lastRev, recreated>>

Dev(name) == name \in Deviations /\ TLCSet(7, TLCGet(7) \cup {name})

Ev == TraceLog[l]
IsEvent(name) == l <= Len(TraceLog) /\ Ev.ev = name /\ l' = l + 1
TInit == l = 1 /\ kv = [t \in Tabs |-> EmptyKV] /\ lastRev = [t \in Tabs |-> 0] /\ recreated = {} /\ TLCSet(7, {})

TLWrite ==
  /\ IsEvent("lwrite")
  /\ LET t == Ev.table
         x == ApplyCmd(kv[t], Ev.c) IN
     /\ Ev.rev > lastRev[t]
     /\ Ev.val = x.val
     /\ kv' = [kv EXCEPT ![t] = x.kv]
     /\ lastRev' = [lastRev EXCEPT ![t] = Ev.rev]
     /\ UNCHANGED recreated

TLRecreate ==
  /\ IsEvent("lrecreate")
  /\ kv' = [kv EXCEPT ![Ev.table] = EmptyKV]
  /\ lastRev' = [lastRev EXCEPT ![Ev.table] = 0]
  /\ recreated' = recreated \cup {Ev.table}

RECURSIVE MapOf(_, _)
MapOf(mp, ps) == IF ps = <<>> THEN mp
                 ELSE MapOf([x \in DOMAIN mp \cup {Head(ps).k} |-> IF x = Head(ps).k THEN Head(ps).v ELSE mp[x]], Tail(ps))

\* the follower table equals the leader table AT ITS RECORDED LEADER INDEX (checked when the index did not move
\* during the read), and that index never moves backwards
\* KNOWN FINDING RecreateNotNoticed (see TFFinal): "stale" marks a sample of the follower shard that replicated a table
\* the leader has deleted and created again meanwhile; once the new table's log is longer than the old one's the
\* follower appends the NEW table's commands to the OLD table's content
TFObs ==
  /\ IsEvent("fobs")
  /\ IF /\ Ev.li1 <= Ev.li2
        /\ Ev.li1 >= Ev.prev
        /\ (Ev.li1 >= lastRev[Ev.table] \/ Ev.li1 # Ev.li2)     \* (placement by the driver: no later leader write precedes it)
        /\ (Ev.li1 = Ev.li2 => /\ Len(Ev.kvs) = Cardinality({Ev.kvs[i].k : i \in 1..Len(Ev.kvs)})
                               /\ {<<Ev.kvs[i].k, Ev.kvs[i].v>> : i \in 1..Len(Ev.kvs)} = {<<k, kv[Ev.table][k]>> : k \in DOMAIN kv[Ev.table]})
     THEN TRUE
     ELSE Ev.stale /\ Dev("RecreateNotNoticed")
  /\ UNCHANGED <<kv, lastRev, recreated>>

\* once the leader stops changing the follower reaches its latest state ...
\* KNOWN FINDING RecreateNotNoticed: the follower compares table NAMES only; a table deleted and created again on the
\* leader between two of its looks keeps the old table's content (and its index) on the follower for ever
TFFinal ==
  /\ IsEvent("ffinal")
  /\ IF /\ Ev.read
        /\ Len(Ev.kvs) = Cardinality({Ev.kvs[i].k : i \in 1..Len(Ev.kvs)})
        /\ {<<Ev.kvs[i].k, Ev.kvs[i].v>> : i \in 1..Len(Ev.kvs)} = {<<k, kv[Ev.table][k]>> : k \in DOMAIN kv[Ev.table]}
     THEN TRUE
     ELSE Ev.table \in recreated /\ Dev("RecreateNotNoticed")
  /\ UNCHANGED <<kv, lastRev, recreated>>

\* ... and the table sets agree
TFQuiet ==
  /\ IsEvent("fquiet")
  /\ IF Ev.converged THEN TRUE ELSE recreated # {} /\ Dev("RecreateNotNoticed")
  /\ {Ev.leader_tables[i] : i \in 1..Len(Ev.leader_tables)} = {Ev.follower_tables[i] : i \in 1..Len(Ev.follower_tables)}
  /\ UNCHANGED <<kv, lastRev, recreated>>

TReset == IsEvent("reset") /\ kv' = [t \in Tabs |-> EmptyKV] /\ lastRev' = [t \in Tabs |-> 0] /\ recreated' = {}

TNext == TLWrite \/ TLRecreate \/ TFObs \/ TFFinal \/ TFQuiet \/ TReset
TSpec == TInit /\ [][TNext]_vars

TraceAccepted ==
  LET d == TLCGet("stats").diameter IN
  /\ PrintT(<<"DEVIATIONS_USED", TLCGet(7)>>)
  /\ IF d - 1 = Len(TraceLog) THEN PrintT("TRACE_ACCEPTED")
     ELSE Print(<<"TRACE_REJECTED_AT_LINE", d>>, FALSE)
=============================================================================
