---------------------------- MODULE Trace_Stream ----------------------------
(* C18 on the real code: snapshot files written and read back, shipped through *)
(* a real gRPC stream with driver-chosen chunk sizes; codec round trips into   *)
(* recycled pooled objects; concurrent round trips through every registered    *)
(* compressor.  Records and messages are identified by (length, hash).         *)
EXTENDS Integers, Sequences, FiniteSets, Json, TLC

CONSTANTS TraceFile, Deviations
TraceLog == ndJsonDeserialize(TraceFile)
VARIABLES l
Ev == TraceLog[l]
TInit == l = 1
NonEmpty(s) == SelectSeq(s, LAMBDA r : r.len > 0)
\* {"ev":"frame","written":[{len,h}],"read":[{len,h}],"path":...}: same sequence, same boundaries (zero-length writes are skipped by the file format)
TFrame == /\ l <= Len(TraceLog) /\ Ev.ev = "frame" /\ l' = l + 1
          /\ Ev.err = "" /\ Ev.read = NonEmpty(Ev.written)
\* {"ev":"codec","in":{len,h},"out":{len,h},"residue":...}: decode(encode(m)) = m, also into a recycled object
TCodec == /\ l <= Len(TraceLog) /\ Ev.ev = "codec" /\ l' = l + 1 /\ Ev.err = "" /\ Ev.out = Ev.inp
\* {"ev":"compress","name":..,"ok":n,"bad":n}: every concurrent round trip returned the original bytes
TCompress == /\ l <= Len(TraceLog) /\ Ev.ev = "compress" /\ l' = l + 1 /\ Ev.bad = 0 /\ Ev.ok > 0
TReset == l <= Len(TraceLog) /\ Ev.ev = "reset" /\ l' = l + 1
\* {"ev":"served","sent":n,"acked":n,"missing":n,"wrong":n,"extra":n,"alive":bool} : concurrent same-size requests decoded
\* by a serving process built by the real wiring: what every handler saw is its own request
TServed == /\ l <= Len(TraceLog) /\ Ev.ev = "served" /\ l' = l + 1
           /\ Ev.alive /\ Ev.acked > 0 /\ Ev.missing = 0 /\ Ev.wrong = 0 /\ Ev.extra = 0
TNext == TFrame \/ TCodec \/ TCompress \/ TServed \/ TReset
TSpec == TInit /\ [][TNext]_l
TraceAccepted ==
  LET d == TLCGet("stats").diameter IN
  /\ PrintT(<<"DEVIATIONS_USED", {}>>)
  /\ IF d - 1 = Len(TraceLog) THEN PrintT("TRACE_ACCEPTED")
     ELSE Print(<<"TRACE_REJECTED_AT_LINE", d>>, FALSE)
=============================================================================
