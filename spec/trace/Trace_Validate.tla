--------------------------- MODULE Trace_Validate ---------------------------
(* C16: every request class sent over real gRPC to a server built by the real *)
(* API wiring, in a CHILD process; status code, table content before/after,   *)
(* liveness of the child.                                                     *)
EXTENDS Validate

CONSTANTS TraceFile, Deviations
TraceLog == ndJsonDeserialize(TraceFile)
VARIABLES l
Ev == TraceLog[l]
Dev(name) == name \in Deviations /\ TLCSet(7, TLCGet(7) \cup {name})

TInit == l = 1 /\ TLCSet(7, {})
TCase == /\ l <= Len(TraceLog) /\ Ev.ev = "case" /\ l' = l + 1
         /\ OutcomeOK(Ev.r, Ev.code, Ev.changed, Ev.alive)
\* malformed wire input: any answer, but the server survives and a refused request changes nothing
TFuzz == /\ l <= Len(TraceLog) /\ Ev.ev = "fuzz" /\ l' = l + 1
         /\ Ev.alive /\ (Ev.code # "OK" => ~Ev.changed)
TReset == l <= Len(TraceLog) /\ Ev.ev = "reset" /\ l' = l + 1
TNext == TCase \/ TFuzz \/ TReset
TSpec == TInit /\ [][TNext]_l

TraceAccepted ==
  LET d == TLCGet("stats").diameter IN
  /\ PrintT(<<"DEVIATIONS_USED", TLCGet(7)>>)
  /\ IF d - 1 = Len(TraceLog) THEN PrintT("TRACE_ACCEPTED")
     ELSE Print(<<"TRACE_REJECTED_AT_LINE", d>>, FALSE)
=============================================================================
