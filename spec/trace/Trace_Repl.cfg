SPECIFICATION TSpec
CONSTANTS
  TraceFile = "trace.ndjson"
  Deviations = {}
  CutFloor = 1048576
  TransportLimit = 4194304
POSTCONDITION TraceAccepted
CHECK_DEADLOCK FALSE
