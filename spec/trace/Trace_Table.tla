---------------------------- MODULE Trace_Table ----------------------------
(* Trace validation of real fsm.FSM / storage.Engine executions against the *)
(* abstract Table specification (C01, C02, C03, C08 content, C09).          *)
(* One ndjson line per event; several behaviours per file separated by      *)
(* "reset".  Every step is deterministic: the spec computes the expected    *)
(* response from its own state and the logged one must match.               *)
EXTENDS Table, Json, TLC

CONSTANTS TraceFile,        \* path of the ndjson trace
          Deviations        \* names of known-finding deviations tolerated in this run (default {})

TraceLog == ndJsonDeserialize(TraceFile)

VARIABLES l,        \* next line to consume
          st,       \* replica id -> table state [kv, idx, lidx]
          pinned,   \* replica id -> table state pinned by the last PrepareSnapshot
          hist,     \* recorded contents of replica 1 during a concurrent section: hist[j+1] = content after j updates
          dlog      \* crash scenarios: the committed log (sequence of [i, c, li]) of the scenario in progress

vars == <<l, st, pinned, hist, dlog>>

Reps == 1..4

\* A deviation is a NAMED departure of the code from the specification that is listed in
\* KNOWN_FINDINGS.txt.  It is only usable when enabled, and its use is recorded (register 7).
Dev(name) == name \in Deviations /\ TLCSet(7, TLCGet(7) \cup {name})

TInit == /\ TLCSet(7, {})
         /\ l = 1
         /\ st = [r \in Reps |-> InitTable]
         /\ pinned = [r \in Reps |-> InitTable]
         /\ hist = <<>>
         /\ dlog = <<>>

Ev == TraceLog[l]
IsEvent(name) == l <= Len(TraceLog) /\ Ev.ev = name /\ l' = l + 1

(***************************************************************************)
(* update: one FSM.Update call = one apply batch on replica rep            *)
(***************************************************************************)
\* KNOWN FINDING DelPrevSizeCut: a range DELETE with prev_kv whose matched pairs exceed the
\* ~4 MiB read chunk reports only the first chunk (deleted, prev_kvs) although all pairs are deleted.
DelCutSignature(exp, got) ==
  /\ exp.t = "del" /\ got.t = "del" /\ exp.wp
  /\ Len(got.prev) < Len(exp.prev)
  /\ SubSeq(exp.prev, 1, Len(got.prev)) = got.prev
  /\ got.deleted = Len(got.prev)
  /\ RawSize(SubSeq(exp.prev, 1, Len(got.prev) + 1)) >= CutFloor

RespMatchT(exp, got) ==
  \/ RespMatch(exp, got)
  \/ (DelCutSignature(exp, got) /\ Dev("DelPrevSizeCut"))

RespsMatchT(exp, got) ==
  Len(exp) = Len(got) /\ \A i \in 1..Len(exp) : RespMatchT(exp[i], got[i])

RECURSIVE EntriesOK(_, _)
EntriesOK(s, ents) ==
  IF ents = <<>> THEN [ok |-> TRUE, st |-> s]
  ELSE LET e == Head(ents)
           x == ApplyEntry(s, [i |-> e.i, c |-> e.c, li |-> e.li])
           \* (the repository's own unit tests apply entries with arbitrary indices: "anyindex")
           good == /\ (e.i > s.idx \/ ("anyindex" \in DOMAIN e /\ e.anyindex))
                   /\ e.val = x.val
                   /\ RespsMatchT(x.r, e.rs)
                   /\ (e.data => e.rev = e.i)          \* revision = log position
                   /\ (x.r # <<>> => e.data)           \* responses travel in Result.Data
       IN IF good THEN EntriesOK(x.st, Tail(ents)) ELSE [ok |-> FALSE, st |-> s]

TUpdate ==
  /\ IsEvent("update")
  /\ LET x == EntriesOK(st[Ev.rep], Ev.ents) IN
     /\ x.ok
     /\ Ev.idx = x.st.idx        \* C01: reported applied index = index of last command
     /\ Ev.lidx = x.st.lidx      \* C03: leader index is a function of the log
     \* C11 (the apply side): the applied-index listener is told, once per Update, the leader index the batch
     \* recorded - or, if no entry carried one, the index of its last entry
     /\ ("notified" \in DOMAIN Ev =>
           Ev.notified = <<IF \E i \in 1..Len(Ev.ents) : Ev.ents[i].li # NoLI THEN x.st.lidx ELSE x.st.idx>>)
     /\ st' = [st EXCEPT ![Ev.rep] = x.st]
     /\ hist' = IF hist # <<>> /\ Ev.rep = 1 THEN Append(hist, x.st.kv) ELSE hist
  /\ UNCHANGED <<pinned, dlog>>

(***************************************************************************)
(* reads                                                                   *)
(***************************************************************************)

\* unary range read: the unbounded answer, or a legitimate size cut of it
LookupOK(kv, op, got) == RangeMatch(RangeRead(kv, op), got)

TLookup ==
  /\ IsEvent("lookup")
  /\ LookupOK(st[Ev.rep].kv, Ev.op, Ev.r)
  /\ UNCHANGED <<st, pinned, hist, dlog>>

\* streamed range read: chunks concatenate to the unbounded answer
RECURSIVE Concat(_)
Concat(chunks) == IF chunks = <<>> THEN <<>> ELSE Head(chunks).kvs \o Concat(Tail(chunks))
RECURSIVE SumCount(_)
SumCount(chunks) == IF chunks = <<>> THEN 0 ELSE Head(chunks).count + SumCount(Tail(chunks))

IterOK(kv, op, chunks) ==
  LET exp == RangeRead(kv, op)
      n   == Len(chunks) IN
  /\ n >= 1
  /\ Concat(chunks) = exp.kvs
  /\ SumCount(chunks) = exp.count
  /\ \A i \in 1..n : /\ chunks[i].sz < TransportLimit
                     /\ (~op.countOnly => chunks[i].count = Len(chunks[i].kvs))
                     /\ (i < n => chunks[i].more = TRUE)
  /\ chunks[n].more = exp.more
  \* no needless cut: a message followed by another one is at least CutFloor big
  \* once the first pair of the next message is added
  /\ \A i \in 1..(n - 1) :
        chunks[i].sz + RawSize(SubSeq(chunks[i + 1].kvs, 1, MinI(1, Len(chunks[i + 1].kvs)))) >= CutFloor

TIter ==
  /\ IsEvent("iter")
  /\ IterOK(st[Ev.rep].kv, Ev.op, Ev.chunks)
  /\ UNCHANGED <<st, pinned, hist, dlog>>

\* read-only transaction through Lookup: same answers as the write path would give (C02)
TRoTxn ==
  /\ IsEvent("rotxn")
  /\ LET x == RoTxn(st[Ev.rep].kv, Ev.c) IN
     /\ Ev.ok = x.ok
     /\ RespsMatchT(x.r, Ev.rs)
  /\ UNCHANGED <<st, pinned, hist, dlog>>

TIndex ==
  /\ IsEvent("index")
  /\ Ev.idx = st[Ev.rep].idx
  /\ Ev.lidx = st[Ev.rep].lidx
  /\ UNCHANGED <<st, pinned, hist, dlog>>

(***************************************************************************)
(* clean close + reopen, snapshot transfer (C03, C08 content)              *)
(***************************************************************************)
TReopen ==
  /\ IsEvent("reopen")
  /\ Ev.idx = st[Ev.rep].idx
  /\ UNCHANGED <<st, pinned, hist, dlog>>

TPrepare ==
  /\ IsEvent("prepare")
  /\ pinned' = [pinned EXCEPT ![Ev.rep] = st[Ev.rep]]
  /\ UNCHANGED <<st, hist, dlog>>

TRecover ==
  /\ IsEvent("recover")
  /\ st' = [st EXCEPT ![Ev.to] = pinned[Ev.from]]
  /\ UNCHANGED <<pinned, hist, dlog>>

\* traces of the repository's own tests (vdrive fsmtrace): "adopt" = the complete state a state machine instance shows
\* after Open / RecoverFromSnapshot (where it comes from is not traced); "content" = its complete state before Close,
\* which must be what the updates in between lead to
TAdopt ==
  /\ IsEvent("adopt")
  /\ Len(Ev.kvs) = Cardinality({Ev.kvs[i].k : i \in 1..Len(Ev.kvs)})
  /\ st' = [st EXCEPT ![Ev.rep] = [kv |-> [k \in {Ev.kvs[i].k : i \in 1..Len(Ev.kvs)} |->
                                              Ev.kvs[CHOOSE i \in 1..Len(Ev.kvs) : Ev.kvs[i].k = k].v],
                                    idx |-> Ev.idx, lidx |-> Ev.lidx]]
  /\ UNCHANGED <<pinned, hist, dlog>>
TContent ==
  /\ IsEvent("content")
  /\ Ev.idx = st[Ev.rep].idx /\ Ev.lidx = st[Ev.rep].lidx
  /\ Len(Ev.kvs) = Cardinality({Ev.kvs[i].k : i \in 1..Len(Ev.kvs)})
  /\ {<<Ev.kvs[i].k, Ev.kvs[i].v>> : i \in 1..Len(Ev.kvs)} = {<<k, st[Ev.rep].kv[k]>> : k \in DOMAIN st[Ev.rep].kv}
  /\ UNCHANGED <<st, pinned, hist, dlog>>

TReset ==
  /\ IsEvent("reset")
  /\ st' = [r \in Reps |-> InitTable]
  /\ pinned' = [r \in Reps |-> InitTable]
  /\ hist' = <<>>
  /\ dlog' = <<>>

(***************************************************************************)
(* Crash recovery (C04, C08 interrupted installs).                         *)
(* "dlog": the committed log of the scenario.  "recovered": after a crash  *)
(* at file-system operation k (all non-durable state dropped) the table    *)
(* was reopened: Open must succeed and report an index i such that         *)
(*   - i is an apply-batch boundary of the scenario (or an installed       *)
(*     snapshot's index): never part of a batch,                           *)
(*   - i >= floor, the index covered by the last COMPLETED sync / close /  *)
(*     snapshot install before the crash, and i <= what had been applied,  *)
(* and the content is then exactly log entries 1..i (checked by the reads  *)
(* that follow; the updates that follow re-apply the rest).                *)
(***************************************************************************)
TDLog == /\ IsEvent("dlog") /\ dlog' = Ev.log /\ UNCHANGED <<st, pinned, hist>>

Prefix(i) == SelectSeq(dlog, LAMBDA e : e.i <= i)
TRecovered ==
  /\ IsEvent("recovered")
  /\ Ev.err = ""
  /\ Ev.idx \in {Ev.bounds[j] : j \in 1..Len(Ev.bounds)} \cup {0}
  /\ Ev.floor <= Ev.idx /\ Ev.idx <= Ev.applied
  /\ st' = [st EXCEPT ![Ev.rep] = IF Ev.err = "" THEN ApplyEntries(InitTable, Prefix(Ev.idx)) ELSE InitTable]
  /\ UNCHANGED <<pinned, hist, dlog>>

(***************************************************************************)
(* Concurrent section (C02 atomic visibility, C09 point-in-time view):     *)
(* one writer applies updates while readers run.  "rec_start" starts       *)
(* recording the content after every update.  A reader event carries       *)
(* s = number of updates COMPLETED when the read was invoked and           *)
(* e = number of updates STARTED when it returned; the answer must be the  *)
(* answer of ONE of the contents hist[s+1] .. hist[e+1] - a state that     *)
(* existed, never a mixture.                                               *)
(***************************************************************************)
TRecStart ==
  /\ IsEvent("rec_start")
  /\ hist' = <<st[1].kv>>
  /\ UNCHANGED <<st, pinned, dlog>>

Window == {j \in (Ev.s + 1)..(Ev.e + 1) : j <= Len(hist)}

TRoTxnAt ==
  /\ IsEvent("rotxn_at")
  /\ \E j \in Window : LET x == RoTxn(hist[j], Ev.c) IN Ev.ok = x.ok /\ RespsMatchT(x.r, Ev.rs)
  /\ UNCHANGED <<st, pinned, hist, dlog>>

TLookupAt ==
  /\ IsEvent("lookup_at")
  /\ \E j \in Window : LookupOK(hist[j], Ev.op, Ev.r)
  /\ UNCHANGED <<st, pinned, hist, dlog>>

TIterAt ==
  /\ IsEvent("iter_at")
  /\ \E j \in Window : IterOK(hist[j], Ev.op, Ev.chunks)
  /\ UNCHANGED <<st, pinned, hist, dlog>>

\* a lazy range sequence created before a snapshot install and consumed after it: old state, new state or a clean
\* failure - never a crash of the serving process (C08).
\* KNOWN FINDING LazyReadAfterInstallPanics: the sequence opens its iterator on the closed old DB: panic "pebble: closed"
TLazyRead ==
  /\ IsEvent("lazyread")
  /\ \/ Ev.outcome \in {"old", "new", "error"}
     \/ (Ev.outcome = "panic" /\ Dev("LazyReadAfterInstallPanics"))
  /\ UNCHANGED <<st, pinned, hist, dlog>>

\* a command snapshot (source of backups and follower recovery streams) taken while updates continue: its pairs are
\* the content at EXACTLY the index it declares (C07).  During a recorded section update k (index k+1) makes hist[k+1].
RECURSIVE PairsMap(_, _)
PairsMap(mp, ps) == IF ps = <<>> THEN mp
                    ELSE PairsMap([x \in DOMAIN mp \cup {Head(ps).k} |-> IF x = Head(ps).k THEN Head(ps).v ELSE mp[x]], Tail(ps))
TSnapAt ==
  /\ IsEvent("snap_at")
  /\ Ev.index >= 1 /\ Ev.index <= Len(hist)
  /\ Len(Ev.pairs) = Cardinality({Ev.pairs[i].k : i \in 1..Len(Ev.pairs)})
  /\ {<<Ev.pairs[i].k, Ev.pairs[i].v>> : i \in 1..Len(Ev.pairs)} = {<<k, hist[Ev.index][k]>> : k \in DOMAIN hist[Ev.index]}
  /\ UNCHANGED <<st, pinned, hist, dlog>>

TNext == TSnapAt \/ TLazyRead \/ TDLog \/ TRecovered \/ TRecStart \/ TRoTxnAt \/ TLookupAt \/ TIterAt \/ TUpdate \/ TLookup \/ TIter \/ TRoTxn \/ TIndex \/ TReopen \/ TPrepare \/ TRecover \/ TReset \/ TAdopt \/ TContent

TSpec == TInit /\ [][TNext]_vars

TraceAccepted ==
  LET d == TLCGet("stats").diameter IN
  /\ PrintT(<<"DEVIATIONS_USED", TLCGet(7)>>)
  /\ IF d - 1 = Len(TraceLog) THEN PrintT("TRACE_ACCEPTED")
     ELSE Print(<<"TRACE_REJECTED_AT_LINE", d>>, FALSE)
=============================================================================
