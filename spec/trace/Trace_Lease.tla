----------------------------- MODULE Trace_Lease -----------------------------
(* C15 (and the store rules of C13 underneath): every metadata-store call the *)
(* real Manager.LeaseTable / ReturnTable makes, in the order a TLC-chosen     *)
(* schedule released them, plus the return value of every call.               *)
EXTENDS Integers, Sequences, FiniteSets, Json, TLC

CONSTANTS TraceFile, Deviations
TraceLog == ndJsonDeserialize(TraceFile)

None == [owner |-> 0, until |-> "none", ver |-> 0]

VARIABLES l, rec, hi, wrote    \* wrote: node -> "" | "set" | "del" : successful write of the call in progress
vars == <<l, rec, hi, wrote>>
Nodes == 1..4

Ev == TraceLog[l]
IsEvent(name) == l <= Len(TraceLog) /\ Ev.ev = name /\ l' = l + 1

TInit == l = 1 /\ rec = None /\ hi = 0 /\ wrote = [n \in Nodes |-> ""]

Accepts(ver) == rec = None \/ rec.ver = ver

\* calls on other records (the table's catalogue record, touched by DeleteTable / GetTables in the epilogue) are not
\* interpreted; calls on the LEASE record are - whichever manager method makes them
IsLease == IF "lease" \in DOMAIN Ev THEN Ev.lease ELSE TRUE
TOtherKey == /\ l <= Len(TraceLog)
             /\ \/ Ev.ev \in {"sexists", "sgetall"}
                \/ Ev.ev \in {"sget", "sset", "sdel"} /\ ~IsLease
             /\ l' = l + 1
             /\ UNCHANGED <<rec, hi, wrote>>

TGet ==
  /\ IsEvent("sget") /\ IsLease
  /\ IF rec = None THEN ~Ev.found
     ELSE Ev.found /\ Ev.owner = rec.owner /\ Ev.until = rec.until /\ Ev.ver = rec.ver
  /\ UNCHANGED <<rec, hi, wrote>>

TSet ==
  /\ IsEvent("sset") /\ IsLease
  /\ IF Accepts(Ev.ver)
     THEN /\ Ev.err = ""
          /\ Ev.rver > hi
          \* C15: a lease is written only over nothing, the writer's own record, or an expired one,
          \* and a node only ever writes its own id
          /\ Ev.owner = Ev.n
          /\ (rec = None \/ rec.owner = Ev.n \/ rec.until = "past")
          /\ rec' = [owner |-> Ev.owner, until |-> Ev.until, ver |-> Ev.rver]
          /\ hi' = Ev.rver
          /\ wrote' = [wrote EXCEPT ![Ev.n] = "set"]
     ELSE /\ Ev.err = "mismatch"
          /\ UNCHANGED <<rec, hi, wrote>>

TDel ==
  /\ IsEvent("sdel") /\ IsLease
  /\ IF Accepts(Ev.ver)
     THEN /\ Ev.err = ""
          /\ (rec = None \/ rec.owner = Ev.n)          \* a return removes only the caller's own lease
          /\ rec' = None
          /\ hi' = hi + 1
          /\ wrote' = [wrote EXCEPT ![Ev.n] = "del"]
     ELSE /\ Ev.err = "mismatch"
          /\ UNCHANGED <<rec, hi, wrote>>

\* the call's own answer: success only if its compare-and-set went through
TRet ==
  /\ IsEvent("ret")
  /\ (Ev.res = "ok" <=> wrote[Ev.n] = "set")
  /\ (Ev.res = "returned" => wrote[Ev.n] = "del")
  /\ (Ev.call = "RT" /\ wrote[Ev.n] = "del" => Ev.res = "returned")
  /\ (Ev.call \in {"DT", "GT"} => wrote[Ev.n] = "")            \* other catalogue operations never write the lease record
  /\ wrote' = [wrote EXCEPT ![Ev.n] = ""]
  /\ UNCHANGED <<rec, hi>>

\* {"ev":"race","results":[..],"holder":n,"unexpired":bool,"owner":n} : racing LeaseTable calls of nodes 1..k whose
\* compare-and-set proposals reach the state machine as one apply batch; holder = who held a lease before (0 nobody),
\* unexpired = that lease is still running, owner = the record afterwards.  Of several racing requests at most one
\* succeeds; a running lease of racer 1 is not taken over; the record names a winner
TRace ==
  /\ IsEvent("race")
  /\ LET oks == {i \in 1..Len(Ev.results) : Ev.results[i] = "ok"} IN
     /\ Cardinality(oks) <= 1
     /\ (Ev.unexpired => oks \subseteq {Ev.holder})
     /\ \A i \in oks : Ev.owner = i
  /\ UNCHANGED <<rec, hi, wrote>>

TReset == IsEvent("reset") /\ rec' = None /\ hi' = 0 /\ wrote' = [n \in Nodes |-> ""]

TNext == TGet \/ TSet \/ TDel \/ TRet \/ TReset \/ TOtherKey \/ TRace
TSpec == TInit /\ [][TNext]_vars

TraceAccepted ==
  LET d == TLCGet("stats").diameter IN
  /\ PrintT(<<"DEVIATIONS_USED", {}>>)
  /\ IF d - 1 = Len(TraceLog) THEN PrintT("TRACE_ACCEPTED")
     ELSE Print(<<"TRACE_REJECTED_AT_LINE", d>>, FALSE)
=============================================================================
