--------------------------- MODULE Trace_ShardView ---------------------------
(* C19: updates delivered to the real shard views of 2-3 nodes (directly, in  *)
(* batches, concurrently, and through the gossip delegate's LocalState /      *)
(* MergeRemoteState JSON exchange); after every step the real view of every   *)
(* shard must equal the JOIN of everything that node has been told, and the   *)
(* reported term must never move backwards.                                   *)
EXTENDS ShardView, Json, TLC

CONSTANTS TraceFile, Deviations
TraceLog == ndJsonDeserialize(TraceFile)

Nodes == 1..3
Shards == 1..3
VARIABLES l, delivered, last     \* delivered[n][s]: set of updates; last[n][s]: last observed view
vars == <<l, delivered, last>>

Ev == TraceLog[l]
IsEvent(name) == l <= Len(TraceLog) /\ Ev.ev = name /\ l' = l + 1
TInit == l = 1 /\ delivered = [n \in Nodes |-> [s \in Shards |-> {}]] /\ last = [n \in Nodes |-> [s \in Shards |-> Empty]]

U(x) == [cc |-> x.cc, reps |-> x.reps, leader |-> x.leader, term |-> x.term]

\* {"ev":"update","node":n,"ups":[{shard,cc,reps,leader,term}]}  (one shardView.update call, or several concurrent ones)
TUpdate ==
  /\ IsEvent("update")
  /\ delivered' = [delivered EXCEPT ![Ev.node] =
        [s \in Shards |-> @[s] \cup {U(Ev.ups[i]) : i \in {j \in 1..Len(Ev.ups) : Ev.ups[j].shard = s}}]]
  /\ UNCHANGED last

\* push-pull state exchange: everything node "from" knows reaches node "to"
TGossip ==
  /\ IsEvent("gossip")
  /\ delivered' = [delivered EXCEPT ![Ev.to] = [s \in Shards |-> @[s] \cup delivered[Ev.from][s]]]
  /\ UNCHANGED last

\* observed view of one shard on one node (what response headers are built from)
TView ==
  /\ IsEvent("view")
  /\ LET j == Join(delivered[Ev.node][Ev.shard]) IN
     /\ Ev.cc = j.cc /\ Ev.leader = j.leader /\ Ev.term = j.term
     /\ (j.cc # 0 => Ev.reps = j.reps)
  /\ Ev.term >= last[Ev.node][Ev.shard].term           \* never backwards in term
  /\ last' = [last EXCEPT ![Ev.node][Ev.shard] = U(Ev)]
  /\ UNCHANGED delivered

\* a membership event of the gossip layer (a member joined, left or changed): it brings no Raft information of its own
\* (the node re-reads its LOCAL Raft information, which is empty in this driver), so the view stays the join of what was
\* delivered - a member that leaves does not take knowledge about terms with it
TMember == IsEvent("member") /\ UNCHANGED <<delivered, last>>

TReset == IsEvent("reset") /\ delivered' = [n \in Nodes |-> [s \in Shards |-> {}]] /\ last' = [n \in Nodes |-> [s \in Shards |-> Empty]]

TNext == TUpdate \/ TGossip \/ TView \/ TMember \/ TReset
TSpec == TInit /\ [][TNext]_vars

TraceAccepted ==
  LET d == TLCGet("stats").diameter IN
  /\ PrintT(<<"DEVIATIONS_USED", {}>>)
  /\ IF d - 1 = Len(TraceLog) THEN PrintT("TRACE_ACCEPTED")
     ELSE Print(<<"TRACE_REJECTED_AT_LINE", d>>, FALSE)
=============================================================================
