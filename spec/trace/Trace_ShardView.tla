--------------------------- MODULE Trace_ShardView ---------------------------
(* C19: updates delivered to the real shard views of 2-3 nodes (directly, in  *)
(* batches, concurrently, and through the gossip delegate's LocalState /      *)
(* MergeRemoteState JSON exchange); after every step the real view of every   *)
(* shard must equal the JOIN of everything that node has been told, and the   *)
(* reported term must never move backwards.                                   *)
EXTENDS ShardView, Json, TLC

CONSTANTS TraceFile, Deviations
TraceLog == ndJsonDeserialize(TraceFile)

Nodes == 1..3
Shards == 1..3
VARIABLES l, delivered, last,    \* delivered[n][s]: set of updates; last[n][s]: last observed view
          local                  \* local[n][s]: what node n's own NodeHost reports about shard s ({} = the shard does not run there)
vars == <<l, delivered, last, local>>

Ev == TraceLog[l]
IsEvent(name) == l <= Len(TraceLog) /\ Ev.ev = name /\ l' = l + 1
NoLocal == [n \in Nodes |-> [s \in Shards |-> {}]]
TInit == l = 1 /\ delivered = [n \in Nodes |-> [s \in Shards |-> {}]] /\ last = [n \in Nodes |-> [s \in Shards |-> Empty]] /\ local = NoLocal
\* every path that re-reads the local Raft information merges it: the node has then been told local[n] as well
WithLocal(d, n) == [d EXCEPT ![n] = [s \in Shards |-> @[s] \cup local[n][s]]]

U(x) == [cc |-> x.cc, reps |-> x.reps, leader |-> x.leader, term |-> x.term]

\* {"ev":"update","node":n,"ups":[{shard,cc,reps,leader,term}]}  (one shardView.update call, or several concurrent ones)
TUpdate ==
  /\ IsEvent("update")
  /\ delivered' = [delivered EXCEPT ![Ev.node] =
        [s \in Shards |-> @[s] \cup {U(Ev.ups[i]) : i \in {j \in 1..Len(Ev.ups) : Ev.ups[j].shard = s}}]]
  /\ UNCHANGED <<last, local>>

\* {"ev":"local","node":n,"ups":[...]}: the node's NodeHost now reports exactly these shards (no call into the code)
TLocal ==
  /\ IsEvent("local")
  /\ local' = [local EXCEPT ![Ev.node] =
        [s \in Shards |-> {U(Ev.ups[i]) : i \in {j \in 1..Len(Ev.ups) : Ev.ups[j].shard = s}}]]
  /\ UNCHANGED <<delivered, last>>

\* {"ev":"notify","node":n}: a Raft event, Cluster.Notify merges the local information. A shard that does not run
\* locally (any more) keeps what is known about it: knowledge of a term is never given up
TNotify ==
  /\ IsEvent("notify")
  /\ delivered' = WithLocal(delivered, Ev.node)
  /\ UNCHANGED <<last, local>>

\* push-pull state exchange: everything node "from" knows reaches node "to"
TGossip ==
  /\ IsEvent("gossip")
  /\ LET d1 == WithLocal(delivered, Ev.from)      \* LocalState re-reads the sender's local information first
     IN delivered' = [d1 EXCEPT ![Ev.to] = [s \in Shards |-> @[s] \cup d1[Ev.from][s]]]
  /\ UNCHANGED <<last, local>>

\* observed view of one shard on one node (what response headers are built from)
TView ==
  /\ IsEvent("view")
  /\ LET j == Join(delivered[Ev.node][Ev.shard]) IN
     /\ Ev.cc = j.cc /\ Ev.leader = j.leader /\ Ev.term = j.term
     /\ (j.cc # 0 => Ev.reps = j.reps)
  /\ Ev.term >= last[Ev.node][Ev.shard].term           \* never backwards in term
  /\ last' = [last EXCEPT ![Ev.node][Ev.shard] = U(Ev)]
  /\ UNCHANGED <<delivered, local>>

\* a membership event of the gossip layer (a member joined, left or changed): it brings no Raft information of its own
\* (the node re-reads its LOCAL Raft information), so the view stays the join of what was delivered and the local
\* information - a member that leaves does not take knowledge about terms with it
TMember == IsEvent("member") /\ delivered' = WithLocal(delivered, Ev.node) /\ UNCHANGED <<last, local>>

TReset == IsEvent("reset") /\ delivered' = [n \in Nodes |-> [s \in Shards |-> {}]] /\ last' = [n \in Nodes |-> [s \in Shards |-> Empty]] /\ local' = NoLocal

TNext == TUpdate \/ TGossip \/ TView \/ TMember \/ TReset \/ TLocal \/ TNotify
TSpec == TInit /\ [][TNext]_vars

TraceAccepted ==
  LET d == TLCGet("stats").diameter IN
  /\ PrintT(<<"DEVIATIONS_USED", {}>>)
  /\ IF d - 1 = Len(TraceLog) THEN PrintT("TRACE_ACCEPTED")
     ELSE Print(<<"TRACE_REJECTED_AT_LINE", d>>, FALSE)
=============================================================================
