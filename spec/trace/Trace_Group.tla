----------------------------- MODULE Trace_Group -----------------------------
(* C10 on three real engines forming one Raft cluster: concurrent clients on  *)
(* several nodes, one replica lagging.  Every client call is recorded with    *)
(* invoke / return sequence numbers (one process-wide counter).  Writes are   *)
(* replayed in REVISION order in the abstract Table; each read must be        *)
(* explained by a prefix of that order.                                       *)
EXTENDS Table, Json, TLC

CONSTANTS TraceFile, Deviations
TraceLog == ndJsonDeserialize(TraceFile)

VARIABLES l, kv, hist, ws, lastRev
\* hist[j+1] = content after the first j writes (in revision order); ws[j] = [s, e] of the j-th write
vars == <<l, kv, hist, ws, lastRev>>

Ev == TraceLog[l]
IsEvent(name) == l <= Len(TraceLog) /\ Ev.ev = name /\ l' = l + 1
TInit == l = 1 /\ kv = EmptyKV /\ hist = <<EmptyKV>> /\ ws = <<>> /\ lastRev = 0

TWrite ==
  /\ IsEvent("gwrite")
  /\ Ev.rev # 0                       \* every acknowledged mutation reports a non-zero revision ...
  /\ Ev.rev > lastRev                 \* ... revisions are unique (strictly increasing in commit order)
  /\ Ev.logpos                        \* ... and the revision is the position of the command in the table's log
  \* commit order respects real time: this write did not return before a lower-revision write was invoked
  /\ \A i \in 1..Len(ws) : ~(Ev.e < ws[i].s)
  \* ordering the writes by revision explains the response
  /\ LET x == ApplyCmd(kv, Ev.c) IN
     /\ Ev.val = x.val
     /\ RespsMatch(x.r, Ev.rs)
     /\ kv' = x.kv
     /\ hist' = Append(hist, x.kv)
  /\ ws' = Append(ws, [s |-> Ev.s, e |-> Ev.e])
  /\ lastRev' = Ev.rev

\* prefixes a read invoked at s and returned at e may reflect: never a write invoked after it returned;
\* if linearizable, every write acknowledged before it was invoked
Lo(s, lin) == IF ~lin THEN 0
              ELSE LET A == {i \in 1..Len(ws) : ws[i].e < s} IN IF A = {} THEN 0 ELSE CHOOSE m \in A : \A x \in A : x <= m
Hi(e) == LET B == {i \in 1..Len(ws) : ws[i].s > e} IN IF B = {} THEN Len(ws) ELSE (CHOOSE m \in B : \A x \in B : m <= x) - 1

TRead ==
  /\ IsEvent("gread")
  /\ \E j \in Lo(Ev.s, Ev.lin)..Hi(Ev.e) : RangeMatch(RangeRead(hist[j + 1], Ev.op), Ev.r)
  /\ UNCHANGED <<kv, hist, ws, lastRev>>

\* read-only transactions are always linearizable
TRoTxn ==
  /\ IsEvent("grotxn")
  /\ \E j \in Lo(Ev.s, TRUE)..Hi(Ev.e) : LET x == RoTxn(hist[j + 1], Ev.c) IN Ev.ok = x.ok /\ RespsMatch(x.r, Ev.rs)
  /\ UNCHANGED <<kv, hist, ws, lastRev>>

TReset == IsEvent("reset") /\ kv' = EmptyKV /\ hist' = <<EmptyKV>> /\ ws' = <<>> /\ lastRev' = 0

TNext == TWrite \/ TRead \/ TRoTxn \/ TReset
TSpec == TInit /\ [][TNext]_vars

TraceAccepted ==
  LET d == TLCGet("stats").diameter IN
  /\ PrintT(<<"DEVIATIONS_USED", {}>>)
  /\ IF d - 1 = Len(TraceLog) THEN PrintT("TRACE_ACCEPTED")
     ELSE Print(<<"TRACE_REJECTED_AT_LINE", d>>, FALSE)
=============================================================================
