---------------------------- MODULE Trace_Access ----------------------------
(* C17: token cases against real servers built by the real wiring (child      *)
(* processes, leader and follower registration), certificate cases as real    *)
(* TLS handshakes against security.TLSInfo.ServerConfig().                    *)
EXTENDS Access

CONSTANTS TraceFile, Deviations
TraceLog == ndJsonDeserialize(TraceFile)
VARIABLES l
Ev == TraceLog[l]
TInit == l = 1
TToken == /\ l <= Len(TraceLog) /\ Ev.ev = "token" /\ l' = l + 1 /\ TokenOutcomeOK(Ev.x, Ev.code, Ev.changed)
TTls == /\ l <= Len(TraceLog) /\ Ev.ev = "tls" /\ l' = l + 1 /\ TlsOutcomeOK(Ev.x, Ev.accepted)
TReset == l <= Len(TraceLog) /\ Ev.ev = "reset" /\ l' = l + 1
\* {"ev":"tokenrace", ...} : callers with the right token and callers with wrong tokens of the same length at the same time
TTokenRace == /\ l <= Len(TraceLog) /\ Ev.ev = "tokenrace" /\ l' = l + 1
              /\ Ev.wrong_calls > 0 /\ Ev.right_calls > 0 /\ Ev.accepted = 0 /\ Ev.right_refused = 0
TNext == TToken \/ TTls \/ TTokenRace \/ TReset
TSpec == TInit /\ [][TNext]_l
TraceAccepted ==
  LET d == TLCGet("stats").diameter IN
  /\ PrintT(<<"DEVIATIONS_USED", {}>>)
  /\ IF d - 1 = Len(TraceLog) THEN PrintT("TRACE_ACCEPTED")
     ELSE Print(<<"TRACE_REJECTED_AT_LINE", d>>, FALSE)
=============================================================================
