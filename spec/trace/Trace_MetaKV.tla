---------------------------- MODULE Trace_MetaKV ----------------------------
(* C13: trace validation of the real kv.LFSM (Update / Lookup / snapshot) and *)
(* of the real kv.RaftStore on a NodeHost against MetaKV.                     *)
EXTENDS MetaKV, Json, TLC

CONSTANTS TraceFile, Deviations
TraceLog == ndJsonDeserialize(TraceFile)

VARIABLES l, st, hi     \* st: replica -> store; hi: replica -> highest version handed out / index applied
vars == <<l, st, hi>>
Reps == 1..4  \cup 11..14     \* (10 + r: the state of replica r pinned by PrepareSnapshot)

Ev == TraceLog[l]
IsEvent(name) == l <= Len(TraceLog) /\ Ev.ev = name /\ l' = l + 1

TInit == l = 1 /\ st = [r \in Reps |-> EmptyStore] /\ hi = [r \in Reps |-> 0]

\* {"ev":"update","rep":r,"ents":[{i,op,k,val,ver, code, rk, rval, rver}]} : one LFSM.Update call
RECURSIVE EntsOK(_, _, _)
EntsOK(s, h, es) ==
  IF es = <<>> THEN [ok |-> TRUE, s |-> s, h |-> h]
  ELSE LET e == Head(es)
           x == ApplyOne(s, e)
           good == /\ e.i > h                                  \* log indices grow
                   /\ e.code = x.res.code
                   /\ e.rk = x.res.k /\ e.rver = x.res.ver
                   /\ (x.res.code = 2 \/ e.op = "set" => e.rval = x.res.val)
       IN IF good THEN EntsOK(x.s, e.i, Tail(es)) ELSE [ok |-> FALSE, s |-> s, h |-> h]

TUpdate ==
  /\ IsEvent("update")
  /\ LET x == EntsOK(st[Ev.rep], hi[Ev.rep], Ev.ents) IN
     /\ x.ok
     /\ st' = [st EXCEPT ![Ev.rep] = x.s]
     /\ hi' = [hi EXCEPT ![Ev.rep] = x.h]

\* RaftStore.Set / Delete through a real NodeHost: the index is chosen by Raft, so the new version is
\* only required to exceed every version handed out before
TRSet ==
  /\ IsEvent("rset")
  /\ LET s == st[Ev.rep] IN
     IF Accepts(s, Ev.k, Ev.ver)
     THEN /\ Ev.err = ""
          /\ Ev.rver > hi[Ev.rep]
          /\ Ev.rk = Ev.k /\ Ev.rval = Ev.val
          /\ st' = [st EXCEPT ![Ev.rep] = SetKey(s, Ev.k, Ev.val, Ev.rver)]
          /\ hi' = [hi EXCEPT ![Ev.rep] = Ev.rver]
     ELSE /\ Ev.err = "mismatch"
          /\ Ev.rk = Ev.k /\ Ev.rval = s[Ev.k].val /\ Ev.rver = s[Ev.k].ver     \* reports the current pair
          /\ UNCHANGED <<st, hi>>

TRDel ==
  /\ IsEvent("rdel")
  /\ LET s == st[Ev.rep] IN
     IF Accepts(s, Ev.k, Ev.ver)
     THEN /\ Ev.err = ""
          /\ st' = [st EXCEPT ![Ev.rep] = DelKey(s, Ev.k)]
          /\ hi' = [hi EXCEPT ![Ev.rep] = @ + 1]     \* a delete consumes an index too
     ELSE /\ Ev.err = "mismatch"
          /\ UNCHANGED <<st, hi>>

PairSet(ps) == {[k |-> ps[i].k, val |-> ps[i].val, ver |-> ps[i].ver] : i \in 1..Len(ps)}
StrBag(seq) == [x \in {seq[i] : i \in 1..Len(seq)} |-> Cardinality({i \in 1..Len(seq) : seq[i] = x})]

TGet ==
  /\ IsEvent("get")
  /\ LET s == st[Ev.rep] IN
     IF Has(s, Ev.k) THEN Ev.found /\ Ev.val = s[Ev.k].val /\ Ev.ver = s[Ev.k].ver ELSE ~Ev.found
  /\ UNCHANGED <<st, hi>>

TExists == IsEvent("exists") /\ Ev.found = Has(st[Ev.rep], Ev.k) /\ UNCHANGED <<st, hi>>

TGetAll ==
  /\ IsEvent("getall")
  /\ LET s == st[Ev.rep]
         m == GetAll(s, Ev.p) IN
     /\ Len(Ev.pairs) = Cardinality(m)
     /\ PairSet(Ev.pairs) = {[k |-> k, val |-> s[k].val, ver |-> s[k].ver] : k \in m}
     /\ LET vals == [i \in 1..Len(Ev.pairs) |-> Ev.pairs[i].val] IN StrBag(Ev.values) = StrBag(vals)
  /\ UNCHANGED <<st, hi>>

SeqSet(q) == {q[i] : i \in 1..Len(q)}
TList ==
  /\ IsEvent("list")
  /\ SeqSet(Ev.names) = List(st[Ev.rep], Ev.p) /\ Len(Ev.names) = Cardinality(SeqSet(Ev.names))
  /\ SeqSet(Ev.dirs) = ListDir(st[Ev.rep], Ev.p) /\ Len(Ev.dirs) = Cardinality(SeqSet(Ev.dirs))
  /\ UNCHANGED <<st, hi>>

\* snapshot of Ev.from restored into Ev.to: whatever Ev.to held is replaced
TSnap ==
  /\ IsEvent("snap")
  /\ st' = [st EXCEPT ![Ev.to] = st[Ev.from]]
  /\ hi' = [hi EXCEPT ![Ev.to] = hi[Ev.from]]

\* PrepareSnapshot on replica Ev.rep: what is saved later - whatever is applied meanwhile - is THIS state
TSPrepare ==
  /\ IsEvent("sprepare")
  /\ st' = [st EXCEPT ![Ev.rep + 10] = st[Ev.rep]]
  /\ hi' = [hi EXCEPT ![Ev.rep + 10] = hi[Ev.rep]]

\* traces of the repository's own tests (vdrive kvtrace): the store an instance shows after RecoverFromSnapshot (where the
\* snapshot comes from is not traced); the updates that follow are judged against it
TAdopt ==
  /\ IsEvent("adopt")
  /\ Len(Ev.pairs) = Cardinality({Ev.pairs[i].k : i \in 1..Len(Ev.pairs)})
  /\ st' = [st EXCEPT ![Ev.rep] = [k \in {Ev.pairs[i].k : i \in 1..Len(Ev.pairs)} |->
                LET p == Ev.pairs[CHOOSE i \in 1..Len(Ev.pairs) : Ev.pairs[i].k = k] IN [val |-> p.val, ver |-> p.ver]]]
  /\ hi' = [hi EXCEPT ![Ev.rep] = Ev.hi]

TReset == IsEvent("reset") /\ st' = [r \in Reps |-> EmptyStore] /\ hi' = [r \in Reps |-> 0]

TNext == TUpdate \/ TRSet \/ TRDel \/ TGet \/ TExists \/ TGetAll \/ TList \/ TSnap \/ TSPrepare \/ TAdopt \/ TReset
TSpec == TInit /\ [][TNext]_vars

TraceAccepted ==
  LET d == TLCGet("stats").diameter IN
  /\ PrintT(<<"DEVIATIONS_USED", {}>>)
  /\ IF d - 1 = Len(TraceLog) THEN PrintT("TRACE_ACCEPTED")
     ELSE Print(<<"TRACE_REJECTED_AT_LINE", d>>, FALSE)
=============================================================================
