--------------------------- MODULE Trace_LogReader ---------------------------
(* C06 on the real logreader.Cached / logreader.Simple and the real           *)
(* LogServer.Replicate.  The trace specification states the PROPERTY on the   *)
(* observed answers (consecutive, own label, at least one entry, nothing      *)
(* beyond applied, the three special answers); where a size limit cuts an     *)
(* answer is not pinned.                                                      *)
EXTENDS Integers, Sequences, FiniteSets, Json, TLC

CONSTANTS TraceFile, Deviations
TraceLog == ndJsonDeserialize(TraceFile)

S == 1..3
VARIABLES l, N, m, a, kind,     \* the log: last index, marker, applied, index -> entry kind ("enc" or "dummy")
          req, L, sent, state,  \* per session: requested index, range end, number of commands sent, "idle"|"run"|"done"
          lastq                 \* the previous direct query (to compare cached and uncached answers)
vars == <<l, N, m, a, kind, req, L, sent, state, lastq>>

Ev == TraceLog[l]
IsEvent(name) == l <= Len(TraceLog) /\ Ev.ev = name /\ l' = l + 1
NoQ == [f |-> 0, l |-> 0, idx |-> <<>>, err |-> "none", reader |-> "none"]

TInit == /\ l = 1 /\ N = 0 /\ m = 0 /\ a = 0 /\ kind = <<>>
         /\ req = [s \in S |-> 0] /\ L = [s \in S |-> 0] /\ sent = [s \in S |-> 0] /\ state = [s \in S |-> "idle"]
         /\ lastq = NoQ

TAppend == /\ IsEvent("append") /\ N' = N + 1 /\ kind' = Append(kind, Ev.kind)
           /\ a' = IF Ev.apply THEN N + 1 ELSE a
           /\ UNCHANGED <<m, req, L, sent, state, lastq>>
TApply == /\ IsEvent("apply") /\ a < N /\ a' = a + 1 /\ UNCHANGED <<N, m, kind, req, L, sent, state, lastq>>
TCompact == /\ IsEvent("compact") /\ Ev.to <= a /\ m' = Ev.to /\ UNCHANGED <<N, a, kind, req, L, sent, state, lastq>>

TStart == /\ IsEvent("start")
          /\ req' = [req EXCEPT ![Ev.s] = Ev.first] /\ L' = [L EXCEPT ![Ev.s] = a + 1]
          /\ sent' = [sent EXCEPT ![Ev.s] = 0] /\ state' = [state EXCEPT ![Ev.s] = "run"]
          /\ UNCHANGED <<N, m, a, kind, lastq>>

Consecutive(idx, from) == \A i \in 1..Len(idx) : idx[i] = from + i - 1

\* one message sent on the Replicate stream of session Ev.s
TMsg ==
  /\ IsEvent("msg") /\ state[Ev.s] = "run"
  /\ LET s == Ev.s
         nxt == req[s] + sent[s] IN     \* the next index this follower needs
     CASE Ev.kind = "CMDS" ->
            /\ Len(Ev.idx) >= 1
            /\ Consecutive(Ev.idx, nxt)                                 \* no gap, no repeat, in order
            /\ Ev.labels = Ev.idx                                       \* each command labelled with its own index
            /\ Ev.idx[Len(Ev.idx)] < L[s]                               \* none beyond applied at the time of the call
            /\ \A i \in 1..Len(Ev.idx) : Ev.kinds[i] = kind[Ev.idx[i]]  \* non-application entries travel as DUMMY
            /\ sent' = [sent EXCEPT ![s] = @ + Len(Ev.idx)] /\ state' = state
       [] Ev.kind = "USE_SNAPSHOT" -> nxt <= m /\ state' = [state EXCEPT ![s] = "done"] /\ sent' = sent
       [] Ev.kind = "LEADER_BEHIND" -> req[s] > L[s] /\ state' = [state EXCEPT ![s] = "done"] /\ sent' = sent
       [] Ev.kind = "EMPTY" ->          \* only when everything up to the applied index of the call has been sent
            /\ nxt = L[s] /\ Ev.li >= L[s] - 1
            /\ state' = [state EXCEPT ![s] = "done"] /\ sent' = sent
  /\ UNCHANGED <<N, m, a, kind, req, L, lastq>>

\* the stream ended (Replicate returned): it must have ended with one of the closing answers
\* - or, with an error, in front of an entry that cannot be delivered (an encoded entry whose payload is not a command,
\* kind "bad"): whatever was sent before it is a consecutive prefix, nothing is skipped
Undeliverable(s) == \E i \in (req[s] + sent[s])..(L[s] - 1) : i >= 1 /\ i <= Len(kind) /\ kind[i] = "bad"
TEnd == /\ IsEvent("end")
        /\ IF Ev.err = "" THEN state[Ev.s] = "done" ELSE state[Ev.s] = "run" /\ Undeliverable(Ev.s)
        /\ state' = [state EXCEPT ![Ev.s] = "idle"]
        /\ UNCHANGED <<N, m, a, kind, req, L, sent, lastq>>

\* direct QueryRaftLog calls on the readers, range [f, applied+1) as the server computes it
TQuery ==
  /\ IsEvent("query")
  /\ Ev.l = a + 1 /\ Ev.f <= Ev.l
  /\ IF Ev.f = Ev.l THEN Ev.err = "" /\ Ev.idx = <<>>
     ELSE IF Ev.f <= m THEN Ev.err = "ahead"
     ELSE /\ Ev.err = ""
          /\ Len(Ev.idx) >= 1                              \* a non-empty range yields at least one entry
          /\ Consecutive(Ev.idx, Ev.f) /\ Ev.idx[Len(Ev.idx)] < Ev.l
  \* the cache never changes the answer apart from where the size limit cuts it
  /\ (lastq.f = Ev.f /\ lastq.l = Ev.l /\ Ev.reader # lastq.reader =>
        /\ lastq.err = Ev.err
        /\ \A i \in 1..(IF Len(lastq.idx) < Len(Ev.idx) THEN Len(lastq.idx) ELSE Len(Ev.idx)) : lastq.idx[i] = Ev.idx[i])
  /\ lastq' = [f |-> Ev.f, l |-> Ev.l, idx |-> Ev.idx, err |-> Ev.err, reader |-> Ev.reader]
  /\ UNCHANGED <<N, m, a, kind, req, L, sent, state>>

\* END TO END (vdrive logengine): one complete Replicate call against a real engine; the driver works sequentially, so
\* applied = the table's applied index and first = the first index the Raft log still holds, both exactly as of the call.
\* {"ev":"equery","from":n,"applied":n,"first":n,"msgs":[{kind, li, idx, labels, keys, want}],"err":""}
\* keys: the key of every command sent ("" for entries that travel as DUMMY); want: the key written at that log index
RECURSIVE Cat(_, _)
Cat(msgs, f) == IF msgs = <<>> THEN <<>> ELSE msgs[1][f] \o Cat(Tail(msgs), f)
TEQuery ==
  /\ IsEvent("equery")
  /\ Ev.err = ""
  /\ Len(Ev.msgs) >= 1
  /\ LET n    == Len(Ev.msgs)
         last == Ev.msgs[n]
         body == SubSeq(Ev.msgs, 1, n - 1)
         idx  == Cat(body, "idx") IN
     /\ \A i \in 1..(n - 1) : Ev.msgs[i].kind = "CMDS" /\ Len(Ev.msgs[i].idx) >= 1
     /\ IF Ev.from > Ev.applied + 1 THEN n = 1 /\ last.kind = "LEADER_BEHIND"
        ELSE IF Ev.from < Ev.first THEN n = 1 /\ last.kind = "USE_SNAPSHOT"          \* already compacted
        ELSE /\ last.kind = "EMPTY" /\ last.li = Ev.applied                          \* ends at applied + 1 ...
             /\ Len(idx) = Ev.applied + 1 - Ev.from                                   \* ... after everything up to it
             /\ Consecutive(idx, Ev.from)                                             \* no gap, no repeat, in order
             /\ Cat(body, "labels") = idx                                             \* each labelled with its own index
             /\ Cat(body, "keys") = Cat(body, "want")                                 \* and it IS the entry at that index
  /\ UNCHANGED <<N, m, a, kind, req, L, sent, state, lastq>>

TReset == /\ IsEvent("reset") /\ N' = 0 /\ m' = 0 /\ a' = 0 /\ kind' = <<>>
          /\ req' = [s \in S |-> 0] /\ L' = [s \in S |-> 0] /\ sent' = [s \in S |-> 0] /\ state' = [s \in S |-> "idle"]
          /\ lastq' = NoQ

TNext == TAppend \/ TApply \/ TCompact \/ TStart \/ TMsg \/ TEnd \/ TQuery \/ TEQuery \/ TReset
TSpec == TInit /\ [][TNext]_vars

TraceAccepted ==
  LET d == TLCGet("stats").diameter IN
  /\ PrintT(<<"DEVIATIONS_USED", {}>>)
  /\ IF d - 1 = Len(TraceLog) THEN PrintT("TRACE_ACCEPTED")
     ELSE Print(<<"TRACE_REJECTED_AT_LINE", d>>, FALSE)
=============================================================================
