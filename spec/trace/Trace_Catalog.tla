---------------------------- MODULE Trace_Catalog ----------------------------
(* C14: every metadata-store call made by the real table.Manager             *)
(* (CreateTable / DeleteTable / GetTables / Restore), released one at a time  *)
(* in a TLC-chosen order, every call's return value, data operations on the   *)
(* real shards, diffTables and real reconcile passes.                         *)
EXTENDS Integers, Sequences, FiniteSets, Json, TLC

CONSTANTS TraceFile, Deviations
TraceLog == ndJsonDeserialize(TraceFile)

IdStart == 10000
Mgrs == 1..3

VARIABLES l,
          seq,      \* [num, ver]; ver 0 = absent
          tabs,     \* name -> [id, rid, ver]
          hi,       \* highest version handed out
          maxid,    \* highest id ever assigned
          used,     \* ids that ever appeared in a table record
          alloc,    \* manager -> set of ids allocated by the call in progress
          call,     \* manager -> facts about the call in progress
          data,     \* shard id -> set of marker keys written into it
          slashed   \* names containing '/' that were created (known finding SlashNameNotListed)
vars == <<l, seq, tabs, hi, maxid, used, alloc, call, data, slashed>>

Dev(name) == name \in Deviations /\ TLCSet(7, TLCGet(7) \cup {name})
Ev == TraceLog[l]
IsEvent(name) == l <= Len(TraceLog) /\ Ev.ev = name /\ l' = l + 1
NoCall == [touched |-> {}, sawAbsent |-> FALSE, sawPresent |-> FALSE, wroteTab |-> FALSE, deleted |-> FALSE, disturbed |-> FALSE, lastId |-> 0]

TInit == /\ l = 1 /\ seq = [num |-> 0, ver |-> 0] /\ tabs = [n \in {} |-> 0] /\ hi = 0 /\ maxid = IdStart
         /\ used = {} /\ alloc = [m \in Mgrs |-> {}] /\ call = [m \in Mgrs |-> NoCall] /\ data = [i \in {} |-> {}]
         /\ slashed = {} /\ TLCSet(7, {})

Has(n) == n \in DOMAIN tabs
\* a write by one manager disturbs the calls in progress of the others ("concurrent catalogue changes")
Disturb(m) == [x \in Mgrs |-> IF x # m THEN [call[x] EXCEPT !.disturbed = TRUE] ELSE call[x]]

TExists ==
  /\ IsEvent("sexists") /\ Ev.kind = "tab"
  /\ Ev.found = Has(Ev.name)
  /\ call' = [call EXCEPT ![Ev.n].sawAbsent = @ \/ ~Ev.found, ![Ev.n].sawPresent = @ \/ Ev.found, ![Ev.n].touched = @ \cup {Ev.name}]
  /\ UNCHANGED <<seq, tabs, hi, maxid, used, alloc, data, slashed>>

TGetSeq ==
  /\ IsEvent("sget") /\ Ev.kind = "seq"
  /\ IF seq.ver = 0 THEN ~Ev.found ELSE Ev.found /\ Ev.num = seq.num /\ Ev.ver = seq.ver
  /\ UNCHANGED <<seq, tabs, hi, maxid, used, alloc, call, data, slashed>>

TGetTab ==
  /\ IsEvent("sget") /\ Ev.kind = "tab"
  /\ IF Has(Ev.name) THEN Ev.found /\ Ev.id = tabs[Ev.name].id /\ Ev.rid = tabs[Ev.name].rid /\ Ev.ver = tabs[Ev.name].ver
     ELSE ~Ev.found
  /\ call' = [call EXCEPT ![Ev.n].sawAbsent = @ \/ ~Ev.found, ![Ev.n].sawPresent = @ \/ Ev.found, ![Ev.n].touched = @ \cup {Ev.name}]
  /\ UNCHANGED <<seq, tabs, hi, maxid, used, alloc, data, slashed>>

\* id sequence: compare-and-set; a successful write assigns an id above every id assigned before
TSetSeq ==
  /\ IsEvent("sset") /\ Ev.kind = "seq"
  /\ IF seq.ver = 0 \/ seq.ver = Ev.ver
     THEN /\ Ev.err = "" /\ Ev.rver > hi
          /\ Ev.num > maxid
          /\ seq' = [num |-> Ev.num, ver |-> Ev.rver] /\ hi' = Ev.rver /\ maxid' = Ev.num
          /\ alloc' = [alloc EXCEPT ![Ev.n] = @ \cup {Ev.num}]
          /\ call' = Disturb(Ev.n)
     ELSE /\ Ev.err = "mismatch" /\ UNCHANGED <<seq, hi, maxid, alloc, call>>
  /\ UNCHANGED <<tabs, used, data, slashed>>

\* table record: compare-and-set; ids that are NEW in the record must have been assigned to THIS call
\* and never have appeared in any table record before (no reuse by create, recreate or restore)
TSetTab ==
  /\ IsEvent("sset") /\ Ev.kind = "tab"
  /\ IF ~Has(Ev.name) \/ tabs[Ev.name].ver = Ev.ver
     THEN /\ Ev.err = "" /\ Ev.rver > hi
          /\ LET old == IF Has(Ev.name) THEN {tabs[Ev.name].id, tabs[Ev.name].rid} ELSE {}
                 new == ({Ev.id, Ev.rid} \ {0}) \ old
             IN /\ new \subseteq alloc[Ev.n]
                /\ new \cap used = {}
                /\ used' = used \cup new
          /\ tabs' = [x \in DOMAIN tabs \cup {Ev.name} |-> IF x = Ev.name THEN [id |-> Ev.id, rid |-> Ev.rid, ver |-> Ev.rver] ELSE tabs[x]]
          /\ hi' = Ev.rver
          /\ call' = [Disturb(Ev.n) EXCEPT ![Ev.n].wroteTab = TRUE, ![Ev.n].lastId = Ev.id, ![Ev.n].touched = @ \cup {Ev.name}]
          /\ slashed' = IF Ev.slash THEN slashed \cup {Ev.name} ELSE slashed
     ELSE /\ Ev.err = "mismatch"
          /\ call' = [call EXCEPT ![Ev.n].sawPresent = TRUE, ![Ev.n].touched = @ \cup {Ev.name}]
          /\ UNCHANGED <<tabs, hi, used, slashed>>
  /\ UNCHANGED <<seq, maxid, alloc, data>>

TDelTab ==
  /\ IsEvent("sdel") /\ Ev.kind = "tab"
  /\ IF ~Has(Ev.name) \/ tabs[Ev.name].ver = Ev.ver
     THEN /\ Ev.err = ""
          /\ tabs' = [x \in DOMAIN tabs \ {Ev.name} |-> tabs[x]]
          /\ hi' = hi + 1
          /\ call' = [Disturb(Ev.n) EXCEPT ![Ev.n].deleted = TRUE, ![Ev.n].touched = @ \cup {Ev.name}]
     ELSE /\ Ev.err = "mismatch" /\ UNCHANGED <<tabs, hi, call>>
  /\ UNCHANGED <<seq, maxid, used, alloc, data, slashed>>

\* GetTables / getTables: GetAll("/tables/*") returns exactly the catalogued tables
TGetAll ==
  /\ IsEvent("sgetall") /\ Ev.kind = "tabs"
  /\ LET listed == {Ev.tabs[i].name : i \in 1..Len(Ev.tabs)} IN
     \/ listed = DOMAIN tabs
     \* KNOWN FINDING SlashNameNotListed: names containing '/' are created but never listed
     \/ (listed = DOMAIN tabs \ slashed /\ slashed \cap DOMAIN tabs # {} /\ Dev("SlashNameNotListed"))
  /\ Len(Ev.tabs) = Cardinality({Ev.tabs[i].name : i \in 1..Len(Ev.tabs)})
  /\ \A i \in 1..Len(Ev.tabs) : Ev.tabs[i].id = tabs[Ev.tabs[i].name].id /\ Ev.tabs[i].rid = tabs[Ev.tabs[i].name].rid
  /\ UNCHANGED <<seq, tabs, hi, maxid, used, alloc, call, data, slashed>>

(***************************************************************************)
(* return values                                                           *)
(***************************************************************************)
EndCall(m) == /\ call' = [call EXCEPT ![m] = NoCall] /\ alloc' = [alloc EXCEPT ![m] = {}]

TRet ==
  /\ IsEvent("ret")
  /\ call[Ev.n].touched \subseteq {Ev.name}          \* a call touches only the record of the name it was given
  /\ LET c == call[Ev.n] IN
     CASE Ev.call = "C" ->
            /\ (Ev.res = "ok" <=> c.wroteTab)                          \* success = the record was created ...
            /\ (Ev.res = "ok" => Ev.id = c.lastId /\ Ev.id > IdStart)
            /\ (Ev.res = "exists" => c.sawPresent)                     \* ... refused only if the name was seen taken
            /\ (Ev.res \notin {"ok", "exists"} => c.disturbed)         \* anything else only under concurrent changes
       [] Ev.call = "D" ->
            /\ (Ev.res = "ok" <=> c.deleted)
            /\ (Ev.res = "notfound" => c.sawAbsent)
            /\ (Ev.res \notin {"ok", "notfound"} => c.disturbed)
       [] Ev.call = "L" -> Ev.res = "ok"
       [] Ev.call = "G" -> (Ev.res = "ok" => c.sawPresent /\ Ev.id # 0) /\ (Ev.res = "notfound" => c.sawAbsent)
       [] Ev.call = "R" ->        \* restore: the table ends on an id assigned to THIS restore call
            /\ (Ev.res = "ok" => c.wroteTab /\ c.lastId \in alloc[Ev.n])
       [] OTHER -> TRUE
  /\ EndCall(Ev.n)
  /\ UNCHANGED <<seq, tabs, hi, maxid, used, data, slashed>>

(***************************************************************************)
(* data: a (re)created table is empty; tables are isolated                 *)
(***************************************************************************)
DataOf(i) == IF i \in DOMAIN data THEN data[i] ELSE {}
TPut ==
  /\ IsEvent("tput")
  /\ Has(Ev.name) /\ tabs[Ev.name].id = Ev.id
  /\ data' = [x \in DOMAIN data \cup {Ev.id} |-> IF x = Ev.id THEN DataOf(Ev.id) \cup {Ev.key} ELSE data[x]]
  /\ UNCHANGED <<seq, tabs, hi, maxid, used, alloc, call, slashed>>
TRange ==
  /\ IsEvent("trange")
  /\ Has(Ev.name) /\ tabs[Ev.name].id = Ev.id
  /\ {Ev.keys[i] : i \in 1..Len(Ev.keys)} = DataOf(Ev.id)
  /\ UNCHANGED <<seq, tabs, hi, maxid, used, alloc, call, data, slashed>>
\* restore replaced the content of the shard the table now points to
TRestored ==
  /\ IsEvent("restored")
  /\ data' = [x \in DOMAIN data \cup {Ev.id} |-> IF x = Ev.id THEN {Ev.keys[i] : i \in 1..Len(Ev.keys)} ELSE data[x]]
  /\ UNCHANGED <<seq, tabs, hi, maxid, used, alloc, call, slashed>>

(***************************************************************************)
(* reconciliation                                                          *)
(***************************************************************************)
S(q) == {q[i] : i \in 1..Len(q)}
DiffStart(cat, running) == {i \in cat : i \notin running /\ i > IdStart}
DiffStop(cat, running) == {i \in running : i \notin cat /\ i > IdStart}
\* {"ev":"diff","cat":[ids and recover ids of the catalogue],"running":[...],"start":[...],"stop":[...]}
TDiff ==
  /\ IsEvent("diff")
  /\ S(Ev.start) = DiffStart(S(Ev.cat) \ {0}, S(Ev.running)) /\ Len(Ev.start) = Cardinality(S(Ev.start))
  /\ S(Ev.stop) = DiffStop(S(Ev.cat) \ {0}, S(Ev.running)) /\ Len(Ev.stop) = Cardinality(S(Ev.stop))
  /\ UNCHANGED <<seq, tabs, hi, maxid, used, alloc, call, data, slashed>>
\* a real reconcile pass: afterwards exactly the catalogued shards (ids and recover ids) run, system shards untouched
TReconcile ==
  /\ IsEvent("reconcile")
  /\ LET cat == UNION {{tabs[n].id, tabs[n].rid} : n \in DOMAIN tabs} \ {0}
         before == S(Ev.before) IN
     S(Ev.after) = (before \cup DiffStart(cat, before)) \ DiffStop(cat, before)
  /\ UNCHANGED <<seq, tabs, hi, maxid, used, alloc, call, data, slashed>>

TReset == /\ IsEvent("reset") /\ seq' = [num |-> 0, ver |-> 0] /\ tabs' = [n \in {} |-> 0] /\ hi' = 0 /\ maxid' = IdStart
          /\ used' = {} /\ alloc' = [m \in Mgrs |-> {}] /\ call' = [m \in Mgrs |-> NoCall] /\ data' = [i \in {} |-> {}] /\ slashed' = {}

\* {"ev":"lagcreate","name":..,"existed":bool,"res":..,"id":n,"previd":n} : CreateTable calls that never overlap, on a
\* three-node cluster whose metadata replicas lag (vdrive cataloglag): absent concurrent catalogue changes a creation
\* succeeds exactly if the name is free, with an id above every id assigned before
TLagCreate ==
  /\ IsEvent("lagcreate")
  /\ IF Ev.res = "ok" <=> ~Ev.existed THEN TRUE
     \* KNOWN FINDING StaleCatalogRead: the name was deleted through another node, this node's replica still shows it
     ELSE Ev.lagging /\ ~Ev.existed /\ Ev.res = "exists" /\ Dev("StaleCatalogRead")
  /\ (Ev.res = "ok" => Ev.id > Ev.previd /\ Ev.id > IdStart)
  /\ UNCHANGED <<seq, tabs, hi, maxid, used, alloc, call, data, slashed>>

\* {"ev":"laglookup","name":..,"exists":bool,"found":bool,"lagging":bool} : lookup / listing reflect precisely the created and
\* not deleted tables.  KNOWN FINDING StaleCatalogRead: every catalogue read is a local read of the node's metadata replica;
\* while that replica is behind, a table created through another node is not found and a deleted one still is
TLagLookup ==
  /\ IsEvent("laglookup")
  /\ IF Ev.found = Ev.exists THEN TRUE ELSE Ev.lagging /\ Dev("StaleCatalogRead")
  /\ UNCHANGED <<seq, tabs, hi, maxid, used, alloc, call, data, slashed>>

\* store calls this specification does not interpret (cleanup records written by stopTable etc.)
TOther == IsEvent("sother") /\ UNCHANGED <<seq, tabs, hi, maxid, used, alloc, call, data, slashed>>

TNext == TExists \/ TGetSeq \/ TGetTab \/ TSetSeq \/ TSetTab \/ TDelTab \/ TGetAll \/ TRet \/ TPut \/ TRange \/ TRestored
         \/ TDiff \/ TReconcile \/ TReset \/ TOther \/ TLagCreate \/ TLagLookup
TSpec == TInit /\ [][TNext]_vars

TraceAccepted ==
  LET d == TLCGet("stats").diameter IN
  /\ PrintT(<<"DEVIATIONS_USED", TLCGet(7)>>)
  /\ IF d - 1 = Len(TraceLog) THEN PrintT("TRACE_ACCEPTED")
     ELSE Print(<<"TRACE_REJECTED_AT_LINE", d>>, FALSE)
=============================================================================
