---------------------------- MODULE Trace_Restore ----------------------------
(* C07 on the real code: table streams (synthetic record streams with sizes   *)
(* placed around the batching threshold, and real snapshots taken by          *)
(* ActiveTable.Snapshot while a writer keeps writing) loaded by the real      *)
(* Manager.Restore; the restored table read back through Raft.                *)
(* Backup files: the real backup.Backup client against the real Cluster and   *)
(* Maintenance services (vdrive backup): "backupdone" (the manifest lists     *)
(* every table), "stream"/"restored" per table (content before the backup vs  *)
(* content after the restore, into changed tables / another cluster),         *)
(* "restoredpit" (backup taken while a writer writes: the restored content is *)
(* the content at ONE point of the acknowledged write history), "backupcheck" *)
(* (a damaged file or manifest is refused and its table left as it was).      *)
EXTENDS Integers, Sequences, FiniteSets, Json, TLC

CONSTANTS TraceFile, Deviations
TraceLog == ndJsonDeserialize(TraceFile)

VARIABLES l, content, declared, writes
\* content: the map the last stream holds; declared: its index; writes: acknowledged source writes [rev, k, v, del]
vars == <<l, content, declared, writes>>

Ev == TraceLog[l]
IsEvent(name) == l <= Len(TraceLog) /\ Ev.ev = name /\ l' = l + 1
EmptyMap == [k \in {} |-> <<>>]
TInit == l = 1 /\ content = EmptyMap /\ declared = 0 /\ writes = <<>>

\* the map a sequence of pairs denotes (later pairs win)
RECURSIVE MapOf(_, _)
MapOf(mp, ps) == IF ps = <<>> THEN mp
                 ELSE MapOf([x \in DOMAIN mp \cup {Head(ps).k} |-> IF x = Head(ps).k THEN Head(ps).v ELSE mp[x]], Tail(ps))

\* {"ev":"stream","pairs":[{k,v}],"li":n} : the content a stream carries and the index it declares
TStream == /\ IsEvent("stream")
           /\ content' = MapOf(EmptyMap, Ev.pairs) /\ declared' = Ev.li
           /\ UNCHANGED writes

\* {"ev":"restored","err":"","kvs":[{k,v}],"lidx":n} : full range + leader index of the table after Restore
TRestored ==
  /\ IsEvent("restored")
  /\ Ev.err = ""
  /\ Len(Ev.kvs) = Cardinality(DOMAIN content)                 \* no pair added (e.g. a phantom empty key) ...
  /\ {<<Ev.kvs[i].k, Ev.kvs[i].v>> : i \in 1..Len(Ev.kvs)} = {<<k, content[k]>> : k \in DOMAIN content}   \* ... lost or altered; nothing old survives
  /\ Ev.lidx = declared                                        \* the recorded leader index is the declared one
  /\ UNCHANGED <<content, declared, writes>>

\* acknowledged writes of the source table, in revision order
TWrite == /\ IsEvent("write")
          /\ (IF writes = <<>> THEN TRUE ELSE Ev.rev > writes[Len(writes)].rev)
          /\ writes' = Append(writes, [rev |-> Ev.rev, k |-> Ev.k, v |-> Ev.v, del |-> Ev.del])
          /\ UNCHANGED <<content, declared>>

RECURSIVE Replay(_, _, _)
Replay(mp, ws, upto) ==
  IF ws = <<>> \/ Head(ws).rev > upto THEN mp
  ELSE LET w == Head(ws) IN
       Replay(IF w.del THEN [x \in DOMAIN mp \ {w.k} |-> mp[x]]
              ELSE [x \in DOMAIN mp \cup {w.k} |-> IF x = w.k THEN w.v ELSE mp[x]], Tail(ws), upto)

\* {"ev":"snapshot","index":n,"pairs":[...]} : a stream produced while writes continue is the content at EXACTLY its index
TSnapshot ==
  /\ IsEvent("snapshot")
  /\ Len(Ev.pairs) = Cardinality({Ev.pairs[i].k : i \in 1..Len(Ev.pairs)})
  /\ MapOf(EmptyMap, Ev.pairs) = Replay(EmptyMap, writes, Ev.index)
  /\ content' = MapOf(EmptyMap, Ev.pairs) /\ declared' = Ev.index
  /\ UNCHANGED writes

\* {"ev":"backupdone","tables":[..],"listed":[..]} : the manifest lists exactly the tables of the cluster
TBackupDone == /\ IsEvent("backupdone")
               /\ {Ev.tables[i] : i \in 1..Len(Ev.tables)} = {Ev.listed[i] : i \in 1..Len(Ev.listed)}
               /\ Len(Ev.listed) = Len(Ev.tables)
               /\ UNCHANGED <<content, declared, writes>>

Step(mp, w) == IF w.del THEN [x \in DOMAIN mp \ {w.k} |-> mp[x]]
               ELSE [x \in DOMAIN mp \cup {w.k} |-> IF x = w.k THEN w.v ELSE mp[x]]
RECURSIVE Prefixes(_, _)
Prefixes(mp, ws) == IF ws = <<>> THEN {mp} ELSE {mp} \cup Prefixes(Step(mp, Head(ws)), Tail(ws))

\* {"ev":"restoredpit","exists":bool,"kvs":[..],"lidx":n} : a backup taken while writes continue, restored: the content
\* at ONE point of the write history (the "write" events before it), nothing else
TRestoredPit ==
  /\ IsEvent("restoredpit")
  /\ Ev.exists
  /\ Len(Ev.kvs) = Cardinality({Ev.kvs[i].k : i \in 1..Len(Ev.kvs)})
  /\ MapOf(EmptyMap, Ev.kvs) \in Prefixes(EmptyMap, writes)
  /\ Ev.lidx = 0
  /\ writes' = <<>> /\ UNCHANGED <<content, declared>>

\* {"ev":"backupcheck","corrupted":bool,"refused":bool} : a backup file whose checksum does not match its manifest is refused
TBackupCheck == /\ IsEvent("backupcheck") /\ (Ev.corrupted => Ev.refused) /\ (~Ev.corrupted => ~Ev.refused)
                /\ UNCHANGED <<content, declared, writes>>

TReset == IsEvent("reset") /\ content' = EmptyMap /\ declared' = 0 /\ writes' = <<>>

TNext == TStream \/ TRestored \/ TWrite \/ TSnapshot \/ TBackupDone \/ TRestoredPit \/ TBackupCheck \/ TReset
TSpec == TInit /\ [][TNext]_vars

TraceAccepted ==
  LET d == TLCGet("stats").diameter IN
  /\ PrintT(<<"DEVIATIONS_USED", {}>>)
  /\ IF d - 1 = Len(TraceLog) THEN PrintT("TRACE_ACCEPTED")
     ELSE Print(<<"TRACE_REJECTED_AT_LINE", d>>, FALSE)
=============================================================================
