---------------------------- MODULE Trace_KeyEnc ----------------------------
(* C12 on the real codec: events carry (user key, bytes produced by the real *)
(* key.Encoder, key/type returned by the real key.DecodeBytes).  The LAYOUT  *)
(* of the encoding is not demanded; the RELATIONS of the property are        *)
(* checked between every recorded pair of one behaviour.                     *)
EXTENDS Bytes, Json, TLC

CONSTANTS TraceFile, Deviations
TraceLog == ndJsonDeserialize(TraceFile)

VARIABLES l, seen      \* seen: set of [k, e] recorded in this behaviour
vars == <<l, seen>>

Ev == TraceLog[l]
IsEvent(name) == l <= Len(TraceLog) /\ Ev.ev = name /\ l' = l + 1

TInit == l = 1 /\ seen = {}

\* {"ev":"enc","k":key,"e":encoded,"dk":decoded key,"dt":decoded type, "sys": 0/1}
TEnc ==
  /\ IsEvent("enc")
  /\ Ev.dk = Ev.k                                   \* decode(encode(k)) = k
  /\ Ev.dt = Ev.kt                                  \* and the key type survives
  /\ \A p \in seen :
        /\ (p.k # Ev.k \/ p.kt # Ev.kt => p.e # Ev.e)                                      \* injective
        /\ (p.kt = 1 /\ Ev.kt = 1 => (Less(p.k, Ev.k) <=> Less(p.e, Ev.e)))                \* order preserving
        /\ (p.kt = 1 /\ Ev.kt = 1 /\ p.k = Ev.k => p.e = Ev.e)                             \* deterministic
        \* a bookkeeping key is above every user key (so [enc(a), enc(b)) never contains it)
        /\ (p.kt = 2 /\ Ev.kt = 1 => Less(Ev.e, p.e))
        /\ (p.kt = 1 /\ Ev.kt = 2 => Less(p.e, Ev.e))
  /\ seen' = seen \cup {[k |-> Ev.k, kt |-> Ev.kt, e |-> Ev.e]}

TReset == IsEvent("reset") /\ seen' = {}

TNext == TEnc \/ TReset
TSpec == TInit /\ [][TNext]_vars

TraceAccepted ==
  LET d == TLCGet("stats").diameter IN
  /\ PrintT(<<"DEVIATIONS_USED", {}>>)
  /\ IF d - 1 = Len(TraceLog) THEN PrintT("TRACE_ACCEPTED")
     ELSE Print(<<"TRACE_REJECTED_AT_LINE", d>>, FALSE)
=============================================================================
