----------------------------- MODULE Replication -----------------------------
(* C05: leader-to-follower replication of ONE table (replication/worker.go    *)
(* do / proposeBatch / recover; regattaserver/replication.go Replicate /       *)
(* Stream).  The leader has a log of commands 1..N with a compaction point;    *)
(* the follower table is abstracted to the SEQUENCE OF LEADER INDICES whose    *)
(* commands it has applied (so "every leader command exactly once, in leader   *)
(* order" is: applied = base+1 .. lidx) plus the recorded leader index.        *)
(* Worker steps are separate actions so that polling, message cuts, proposal   *)
(* cuts, proposal timeouts, recovery and restarts interleave with leader       *)
(* writes.                                                                     *)
(* Mode = "asis": the pinned commit - a SEQUENCE is applied whatever the       *)
(* recorded leader index is, so a proposal the worker timed out on that is     *)
(* committed after the worker polled again takes effect twice (reproduced on   *)
(* the real code by the apply-stall scenario of vdrive repl).  Mode = "fixed": *)
(* commands at or below the recorded leader index are skipped and the index    *)
(* never moves backwards (storage/table/fsm/command_sequence.go).              *)
EXTENDS Integers, Sequences, FiniteSets, TLC

CONSTANTS MaxLog, MsgLimit, PropLimit, MaxRestarts, MaxTimeouts, Mode

VARIABLES N,          \* leader: last applied log index
          comp,       \* leader: compaction point (entries <= comp are only in snapshots)
          base,       \* follower: index of the snapshot its current shard started from (0 = empty table)
          applied,    \* follower: sequence of leader indices applied on top of base
          lidx,       \* follower: recorded leader index
          w,          \* worker: [st, first, msg (sequence of indices in flight), snap]
          inflight,   \* proposals the worker gave up on that may still commit: set of [cmds, li]
          restarts, timeouts
vars == <<N, comp, base, applied, lidx, w, inflight, restarts, timeouts>>

Idle == [st |-> "idle", first |-> 0, msg |-> <<>>, snap |-> 0]
Init == N = 0 /\ comp = 0 /\ base = 0 /\ applied = <<>> /\ lidx = 0 /\ w = Idle /\ inflight = {} /\ restarts = 0 /\ timeouts = 0

Range(a, b) == [i \in 1..(b - a + 1) |-> a + i - 1]

\* ---- leader
Write == N < MaxLog /\ N' = N + 1 /\ UNCHANGED <<comp, base, applied, lidx, w, inflight, restarts, timeouts>>
Compact == \E c \in (comp + 1)..N : comp' = c /\ UNCHANGED <<N, base, applied, lidx, w, inflight, restarts, timeouts>>

\* ---- follower state machine: one SEQUENCE proposal (commands cmds, tagged with leader index li) is applied
\* atomically together with the leader index (commandSequence.handle + updateContext.Commit)
ApplySeq(cmds, li) ==
  IF Mode = "fixed"
  THEN /\ applied' = applied \o SelectSeq(cmds, LAMBDA c : c > lidx)
       /\ lidx' = IF li > lidx THEN li ELSE lidx
  ELSE /\ applied' = applied \o cmds
       /\ lidx' = li

\* ---- worker: poll = read the recorded leader index, ask for the next one
Poll == /\ w.st = "idle"
        /\ w' = [Idle EXCEPT !.st = "asked", !.first = lidx + 1]
        /\ UNCHANGED <<N, comp, base, applied, lidx, inflight, restarts, timeouts>>
\* the leader answers (LogServer.Replicate): one message of at most MsgLimit commands
Respond ==
  /\ w.st = "asked"
  /\ IF w.first > N + 1 THEN w' = Idle                                         \* LEADER_BEHIND: back off
     ELSE IF w.first <= comp THEN w' = [w EXCEPT !.st = "recover"]             \* USE_SNAPSHOT
     ELSE IF w.first = N + 1 THEN w' = Idle                                    \* up to date
     ELSE LET last == IF w.first + MsgLimit - 1 < N THEN w.first + MsgLimit - 1 ELSE N
          IN w' = [w EXCEPT !.st = "propose", !.msg = Range(w.first, last)]
  /\ UNCHANGED <<N, comp, base, applied, lidx, inflight, restarts, timeouts>>
\* proposeBatch: SEQUENCE proposals of at most PropLimit commands, tagged with the last command's index
Propose ==
  /\ w.st = "propose" /\ w.msg # <<>>
  /\ LET k == IF Len(w.msg) < PropLimit THEN Len(w.msg) ELSE PropLimit
         cmds == SubSeq(w.msg, 1, k)
         rest == SubSeq(w.msg, k + 1, Len(w.msg)) IN
     \/ \* committed and applied in time
        /\ ApplySeq(cmds, cmds[k])
        /\ w' = IF rest = <<>> THEN [Idle EXCEPT !.st = "more", !.first = cmds[k] + 1] ELSE [w EXCEPT !.msg = rest]
        /\ UNCHANGED <<inflight, timeouts>>
     \/ \* the worker gives up (SyncPropose times out) on a proposal that is still in flight; it polls again later
        /\ timeouts < MaxTimeouts /\ timeouts' = timeouts + 1
        /\ inflight' = inflight \cup {[cmds |-> cmds, li |-> cmds[k]]}
        /\ w' = Idle /\ UNCHANGED <<applied, lidx>>
  /\ UNCHANGED <<N, comp, base, restarts>>
\* the Replicate stream continues with the next slice
More == /\ w.st = "more" /\ w' = [Idle EXCEPT !.st = "asked", !.first = w.first]
        /\ UNCHANGED <<N, comp, base, applied, lidx, inflight, restarts, timeouts>>
\* an abandoned proposal commits after all, or is lost
LateCommit == \E p \in inflight :
                /\ ApplySeq(p.cmds, p.li) /\ inflight' = inflight \ {p}
                /\ UNCHANGED <<N, comp, base, w, restarts, timeouts>>
LateDrop == \E p \in inflight : inflight' = inflight \ {p} /\ UNCHANGED <<N, comp, base, applied, lidx, w, restarts, timeouts>>

\* recover: stream a snapshot (point in time: index s = leader's applied index when it is taken), load it into a
\* fresh shard, switch the table to it
SnapTaken == /\ w.st = "recover" /\ w.snap = 0 /\ N > 0 /\ w' = [w EXCEPT !.snap = N]
             /\ UNCHANGED <<N, comp, base, applied, lidx, inflight, restarts, timeouts>>
Switch == /\ w.st = "recover" /\ w.snap # 0
          /\ base' = w.snap /\ applied' = <<>> /\ lidx' = w.snap /\ w' = Idle
          /\ inflight' = {}            \* proposals to the old shard die with it
          /\ UNCHANGED <<N, comp, restarts, timeouts>>
\* worker / engine restart, or a replication stream that breaks: whatever the worker was doing is forgotten
Restart == /\ restarts < MaxRestarts /\ restarts' = restarts + 1 /\ w' = Idle
           /\ UNCHANGED <<N, comp, base, applied, lidx, inflight, timeouts>>

Next == Write \/ Compact \/ Poll \/ Respond \/ Propose \/ More \/ LateCommit \/ LateDrop \/ SnapTaken \/ Switch \/ Restart
Spec == Init /\ [][Next]_vars
Fair == Spec /\ WF_vars(Poll) /\ WF_vars(Respond) /\ WF_vars(Propose) /\ WF_vars(More) /\ WF_vars(SnapTaken) /\ WF_vars(Switch)

(***************************************************************************)
(* C05                                                                     *)
(***************************************************************************)
\* the follower table = the leader table at its recorded leader index: every leader command exactly once, in order
ExactlyOnceInOrder == applied = Range(base + 1, lidx) /\ lidx <= N
\* the recorded index never moves backwards
IndexMonotone == [][lidx' >= lidx]_vars
\* once the leader stops changing the follower reaches its latest state
Converges == <>[](N = MaxLog) => <>[](lidx = N)
=============================================================================
