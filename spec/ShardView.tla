------------------------------ MODULE ShardView ------------------------------
(* C19: the per-shard view a node builds from local Raft information and      *)
(* gossip (storage/cluster/view.go mergeShardInfo / update, delegate          *)
(* LocalState / MergeRemoteState).                                            *)
EXTENDS Integers, Sequences, FiniteSets

NoLeader == 0
Empty == [cc |-> 0, reps |-> 0, leader |-> NoLeader, term |-> 0]

\* mergeShardInfo(current, update)
Merge(cur, u) ==
  LET c1 == IF cur.cc < u.cc THEN [cur EXCEPT !.cc = u.cc, !.reps = u.reps] ELSE cur
  IN IF u.leader # NoLeader /\ (c1.leader = NoLeader \/ u.term > c1.term)
     THEN [c1 EXCEPT !.leader = u.leader, !.term = u.term] ELSE c1

\* what the property says the view is: a join of everything delivered, independent of order and repetition
Join(S) ==
  LET ccs == {u.cc : u \in S} \cup {0}
      mcc == CHOOSE m \in ccs : \A x \in ccs : x <= m
      withLeader == {u \in S : u.leader # NoLeader}
      terms == {u.term : u \in withLeader}
      mt == CHOOSE m \in terms : \A x \in terms : x <= m
  IN [cc |-> mcc,
      reps |-> IF mcc = 0 THEN 0 ELSE (CHOOSE u \in S : u.cc = mcc).reps,
      leader |-> IF withLeader = {} THEN NoLeader ELSE (CHOOSE u \in withLeader : u.term = mt).leader,
      term |-> IF withLeader = {} THEN 0 ELSE mt]
=============================================================================
