------------------------------- MODULE Table -------------------------------
(* ABSTRACT specification of one regatta table: a sorted map from non-empty *)
(* byte strings to byte strings, the commands of proto/mvcc.proto applied   *)
(* one after another, and the read operations.  Pure operators only; the    *)
(* state machines that use them are TableApply (implementation shaped),     *)
(* MC_Table (bounded exhaustive) and Trace_Table (trace validation).        *)
(*                                                                          *)
(* This is what properties C01, C02, C09 *say*; it knows nothing about      *)
(* Pebble batches, encoded keys or apply batches.                           *)
EXTENDS Bytes, SequencesExt

CONSTANTS CutFloor, TransportLimit

NoEnd == <<-1>>      \* "range_end absent" (a sequence, so it never mixes types)
Wild  == <<0>>       \* the '\0' wildcard as range_end = open ended
NoLI  == -1          \* "command carries no leader index"

EmptyKV == [k \in {} |-> <<>>]

(***************************************************************************)
(* Ranges.  With a range_end the range is [lo, hi); hi = Wild means "to    *)
(* the end of the table".  lo = <<0>> is simply the smallest non-empty key.*)
(***************************************************************************)
InRange(k, lo, hi) == Leq(lo, k) /\ (hi = Wild \/ Less(k, hi))

Matches(kv, lo, hi) ==
  IF hi = NoEnd THEN {lo} \cap DOMAIN kv
  ELSE {k \in DOMAIN kv : InRange(k, lo, hi)}

Sorted(S) == SetToSortSeq(S, Less)

KVSeq(kv, keys, withValue) ==
  [i \in 1..Len(keys) |-> [k |-> keys[i], v |-> IF withValue THEN kv[keys[i]] ELSE <<>>]]

PutKV(kv, k, v) == [x \in DOMAIN kv \cup {k} |-> IF x = k THEN v ELSE kv[x]]
DelKeys(kv, S)  == [x \in DOMAIN kv \ S |-> kv[x]]

(***************************************************************************)
(* Reads (C09).  limit = 0 means unlimited.  The abstract read knows       *)
(* nothing about message sizes: RangeRead is the answer of one unbounded   *)
(* read; size cuts are handled by the users of this module.                *)
(***************************************************************************)
RangeRead(kv, op) ==
  LET keys == Sorted(Matches(kv, op.k, op.end))
      n    == Len(keys)
      take == IF op.end # NoEnd /\ op.limit > 0 /\ op.limit < n THEN op.limit ELSE n
  IN [t     |-> "range",
      kvs   |-> IF op.countOnly THEN <<>>
                ELSE KVSeq(kv, SubSeq(keys, 1, take), ~op.keysOnly),
      count |-> take,
      more  |-> take < n]

(***************************************************************************)
(* Writes (C01)                                                            *)
(***************************************************************************)
DoPut(kv, op) ==
  [kv |-> PutKV(kv, op.k, op.v),
   r  |-> [t |-> "put", wp |-> op.prev,
           prev |-> IF op.prev /\ op.k \in DOMAIN kv
                    THEN <<[k |-> op.k, v |-> kv[op.k]]>> ELSE <<>>]]

DoDel(kv, op) ==
  LET S == Matches(kv, op.k, op.end) IN
  [kv |-> DelKeys(kv, S),
   r  |-> [t |-> "del", wp |-> op.prev, wc |-> op.count,
           deleted |-> IF op.prev \/ op.count THEN Cardinality(S) ELSE 0,
           prev    |-> IF op.prev THEN KVSeq(kv, Sorted(S), TRUE) ELSE <<>>]]

(***************************************************************************)
(* Transactions (C02)                                                      *)
(***************************************************************************)
CmpSingle(c, value) ==
  IF ~c.hasVal THEN TRUE
  ELSE CASE c.res = "EQUAL"     -> value = c.val
         [] c.res = "NOT_EQUAL" -> value # c.val
         [] c.res = "GREATER"   -> Cmp(value, c.val) = 1
         [] c.res = "LESS"      -> Cmp(value, c.val) = -1

CmpHolds(kv, c) ==
  LET S == Matches(kv, c.k, c.end) IN
  S # {} /\ \A k \in S : CmpSingle(c, kv[k])

TxnCompare(kv, cmps) == \A i \in 1..Len(cmps) : CmpHolds(kv, cmps[i])

\* one operation of a transaction branch; "none" = RequestOp with empty oneof
DoOp(kv, op) ==
  CASE op.t = "range" -> [kv |-> kv, r |-> <<RangeRead(kv, op)>>]
    [] op.t = "put"   -> LET x == DoPut(kv, op) IN [kv |-> x.kv, r |-> <<x.r>>]
    [] op.t = "del"   -> LET x == DoDel(kv, op) IN [kv |-> x.kv, r |-> <<x.r>>]
    [] op.t = "none"  -> [kv |-> kv, r |-> <<>>]

RECURSIVE DoOps(_, _)
DoOps(kv, ops) ==
  IF ops = <<>> THEN [kv |-> kv, r |-> <<>>]
  ELSE LET h == DoOp(kv, Head(ops))
           t == DoOps(h.kv, Tail(ops))
       IN [kv |-> t.kv, r |-> h.r \o t.r]

DoTxn(kv, c) ==
  LET ok == TxnCompare(kv, c.cmp)
      x  == DoOps(kv, IF ok THEN c.succ ELSE c.fail)
  IN [kv |-> x.kv, ok |-> ok, r |-> x.r]

\* read-only transaction served outside the log: same answers, no effects
RoTxn(kv, c) == LET x == DoTxn(kv, c) IN [ok |-> x.ok, r |-> x.r]

(***************************************************************************)
(* Commands.  ApplyCmd returns the new content, the apply result value     *)
(* (1 = success, 0 = transaction took the failure branch) and the          *)
(* responses.                                                              *)
(***************************************************************************)
RECURSIVE ApplyCmd(_, _)
ApplyCmd(kv, c) ==
  CASE c.t = "PUT"   -> LET x == DoPut(kv, c) IN [kv |-> x.kv, val |-> 1, r |-> <<x.r>>]
    [] c.t = "DEL"   -> LET x == DoDel(kv, c) IN [kv |-> x.kv, val |-> 1, r |-> <<x.r>>]
    [] c.t = "PUTB"  ->
         LET x == DoOps(kv, [i \in 1..Len(c.kvs) |->
                    [t |-> "put", k |-> c.kvs[i].k, v |-> c.kvs[i].v, prev |-> FALSE]])
         IN [kv |-> x.kv, val |-> 1, r |-> x.r]
    [] c.t = "DELB"  ->
         LET x == DoOps(kv, [i \in 1..Len(c.ks) |->
                    [t |-> "del", k |-> c.ks[i], end |-> NoEnd, prev |-> FALSE, count |-> FALSE]])
         IN [kv |-> x.kv, val |-> 1, r |-> x.r]
    [] c.t = "TXN"   -> LET x == DoTxn(kv, c) IN
                        [kv |-> x.kv, val |-> IF x.ok THEN 1 ELSE 0, r |-> x.r]
    [] c.t = "SEQ"   ->
         LET F[i \in 0..Len(c.cmds)] ==
               IF i = 0 THEN [kv |-> kv, r |-> <<>>]
               ELSE LET y == ApplyCmd(F[i - 1].kv, c.cmds[i])
                    IN [kv |-> y.kv, r |-> F[i - 1].r \o y.r]
         IN [kv |-> F[Len(c.cmds)].kv, val |-> 1, r |-> F[Len(c.cmds)].r]
    [] c.t = "DUMMY" -> [kv |-> kv, val |-> 1, r |-> <<>>]

(***************************************************************************)
(* Table state = content + bookkeeping.  A log entry is [i, c, li]:        *)
(* position, command, leader index (NoLI when the command carries none).   *)
(* The leader index recorded by a table is the one carried by the last     *)
(* entry that carries one (C03: a function of the log only).               *)
(* REPLICATED SEQUENCES (C05: every leader command exactly once): the      *)
(* commands of a SEQUENCE built by a replication worker each carry the     *)
(* leader index they have on the leader (field sli = that index + 1, 0 or  *)
(* absent = none); those at or below the recorded leader index took effect *)
(* already and are skipped, and a SEQUENCE never moves the recorded index  *)
(* backwards (a DUMMY - table reset - may).                                *)
(***************************************************************************)
InitTable == [kv |-> EmptyKV, idx |-> 0, lidx |-> 0]

SubLI(c) == IF "sli" \in DOMAIN c THEN c.sli - 1 ELSE NoLI
Fresh(c, lidx) == SubLI(c) = NoLI \/ SubLI(c) > lidx
RECURSIVE Unseen(_, _)
Unseen(c, lidx) ==          \* the sequence without the commands that took effect already
  IF c.t # "SEQ" THEN c
  ELSE [c EXCEPT !.cmds = LET keep == SelectSeq(c.cmds, LAMBDA s : Fresh(s, lidx))
                          IN [i \in 1..Len(keep) |-> Unseen(keep[i], lidx)]]

ApplyEntry(st, e) ==
  LET x == ApplyCmd(st.kv, Unseen(e.c, st.lidx)) IN
  [st  |-> [kv |-> x.kv, idx |-> e.i,
            lidx |-> IF e.li = NoLI THEN st.lidx
                     ELSE IF e.c.t = "SEQ" /\ e.li < st.lidx THEN st.lidx ELSE e.li],
   val |-> x.val, r |-> x.r]

RECURSIVE ApplyEntries(_, _)
ApplyEntries(st, es) ==
  IF es = <<>> THEN st ELSE ApplyEntries(ApplyEntry(st, Head(es)).st, Tail(es))

(***************************************************************************)
(* Response comparison as demanded by C01: "previous pair, and deleted     *)
(* count / previous pairs WHERE REQUESTED".  Expected put/delete responses *)
(* carry wp/wc (was prev_kv / count requested); what was not requested is  *)
(* not pinned.                                                             *)
(***************************************************************************)
\* Sizes.  Values longer than 64 bytes are logged as the token
\* <<-2, len, h1, h2, h3, h4>> (equality only); VLen recovers the length.
\* CutFloor: an answer whose next pair would keep it below this many raw bytes must not be
\* size-cut (1 MiB for real traces).  TransportLimit: every message is smaller (gRPC, 4 MiB).

VLen(v) == IF Len(v) > 0 /\ v[1] = -2 THEN v[2] ELSE Len(v)
RECURSIVE RawSize(_)
RawSize(kvs) == IF kvs = <<>> THEN 0
                ELSE Len(Head(kvs).k) + VLen(Head(kvs).v) + RawSize(Tail(kvs))

\* A range answer matches the unbounded answer exp, or is a legitimate size
\* cut of it (C09: where a size limit cuts is not pinned, but a cut must be
\* flagged 'more', be a prefix, and not be needless).
RangeMatch(exp, got) ==
  \/ (got.kvs = exp.kvs /\ got.count = exp.count /\ got.more = exp.more)
  \/ /\ got.more = TRUE
     /\ got.count = Len(got.kvs)
     /\ Len(got.kvs) < Len(exp.kvs)
     /\ SubSeq(exp.kvs, 1, Len(got.kvs)) = got.kvs
     /\ RawSize(SubSeq(exp.kvs, 1, Len(got.kvs) + 1)) >= CutFloor
     /\ got.sz < TransportLimit

RespMatch(exp, got) ==
  /\ got.t = exp.t
  /\ CASE exp.t = "put"   -> (exp.wp => got.prev = exp.prev)
       [] exp.t = "del"   -> (exp.wp => got.prev = exp.prev) /\ (exp.wc => got.deleted = exp.deleted)
       [] exp.t = "range" -> RangeMatch(exp, got)

RespsMatch(exp, got) ==
  Len(exp) = Len(got) /\ \A i \in 1..Len(exp) : RespMatch(exp[i], got[i])
=============================================================================
