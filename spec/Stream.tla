------------------------------- MODULE Stream -------------------------------
(* C18 (protocol part): a sequence of commands written to a snapshot file     *)
(* (replication/snapshot: 8-byte length prefix per record, zero-length        *)
(* records skipped by Write), shipped as a byte stream cut into chunks at     *)
(* arbitrary positions (snapshot.Writer / gRPC SnapshotChunk / snapshot.Reader *)
(* or backup writer / reader) and reassembled record by record.               *)
(* Bytes are abstract: record i consists of payload bytes <<i, 1>>..<<i, n>>; *)
(* the prefix of a record of length n is the 2 abstract bytes <<"L", n>>,     *)
(* <<"L2", n>> (so that a prefix can be split across chunks too).             *)
EXTENDS Integers, Sequences, FiniteSets, TLC

CONSTANTS Lens, MaxRecords, MaxChunk

\* what Write produces for a record of length n (nothing for n = 0)
Frame(i, n) == IF n = 0 THEN <<>> ELSE <<[t |-> "L", n |-> n], [t |-> "L2", n |-> n]>> \o [j \in 1..n |-> [t |-> "B", i |-> i, j |-> j]]
RECURSIVE FileOf(_, _)
FileOf(recs, i) == IF i > Len(recs) THEN <<>> ELSE Frame(i, recs[i]) \o FileOf(recs, i + 1)

VARIABLES recs,     \* lengths of the records written
          file,     \* the byte stream of the file
          sent,     \* number of bytes already shipped
          buf,      \* bytes received and not yet consumed by the reading side
          out       \* records reassembled: sequence of sequences of payload bytes
vars == <<recs, file, sent, buf, out>>

Init == /\ recs \in UNION {[1..n -> Lens] : n \in 0..MaxRecords}
        /\ file = FileOf(recs, 1) /\ sent = 0 /\ buf = <<>> /\ out = <<>>

\* the transport delivers the next chunk: any cut position
Deliver == \E k \in 1..MaxChunk :
             /\ sent + k <= Len(file)
             /\ buf' = buf \o SubSeq(file, sent + 1, sent + k) /\ sent' = sent + k
             /\ UNCHANGED <<recs, file, out>>
\* the reader consumes one record once its prefix and its whole payload are there (io.ReadFull semantics)
Consume == /\ Len(buf) >= 2 /\ buf[1].t = "L" /\ buf[2].t = "L2"
           /\ Len(buf) >= 2 + buf[1].n
           /\ out' = Append(out, SubSeq(buf, 3, 2 + buf[1].n))
           /\ buf' = SubSeq(buf, 3 + buf[1].n, Len(buf))
           /\ UNCHANGED <<recs, file, sent>>
Next == Deliver \/ Consume
Spec == Init /\ [][Next]_vars

\* the non-empty records written, as sequences of payload bytes
Expected == LET idx == SelectSeq([i \in 1..Len(recs) |-> i], LAMBDA i : recs[i] > 0)
            IN [k \in 1..Len(idx) |-> [j \in 1..recs[idx[k]] |-> [t |-> "B", i |-> idx[k], j |-> j]]]
\* whatever the chunking, what has been reassembled is a prefix of what was written, with the same boundaries
PrefixOK == Len(out) <= Len(Expected) /\ \A k \in 1..Len(out) : out[k] = Expected[k]
\* and when everything was delivered and consumed nothing is missing
Complete == (sent = Len(file) /\ ~ENABLED Consume) => out = Expected /\ buf = <<>>
=============================================================================
