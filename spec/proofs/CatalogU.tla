------------------------------ MODULE CatalogU ------------------------------
(* C14, UNBOUNDED: table-id allocation of spec/Catalog.tla (storage/table/    *)
(* manager.go createTable / incAndGetIDSeq with the retry of fix 4a5ee88, and *)
(* Restore, which allocates an id the same way) for ANY set of managers, ANY  *)
(* set of names, ANY number of calls, with metadata replicas that lag: a read *)
(* of the id sequence returns ANY value the record has ever had.  Proved with *)
(* TLAPS: ids are handed out in strictly increasing order above the reserved  *)
(* range, so no id is ever assigned twice - whatever happens to the tables    *)
(* that carried them (delete, recreate, restore).                             *)
EXTENDS Integers, TLAPS

CONSTANTS Mgrs, IdStart
ASSUME IdAssm == IdStart \in Nat

VARIABLES seq,      \* the id sequence record [num, ver]; ver = 0: absent
          idx,      \* last index of the metadata log (versions are log indices)
          past,     \* GHOST: every value the sequence record ever had (what a lagging replica may still show)
          st,       \* manager -> "idle" | "read" (sequence read, about to compare-and-set)
          rd,       \* manager -> the [num, ver] it read (or was told by a version mismatch)
          last,     \* GHOST: the id assigned most recently (IdStart before the first)
          out       \* GHOST: manager -> the id its last successful allocation returned (0: none yet)
vars == <<seq, idx, past, st, rd, last, out>>

SeqRec == [num : Nat, ver : Nat]
Absent == [num |-> 0, ver |-> 0]
\* the number an allocation continues from
Cur(r) == IF r.ver = 0 THEN IdStart ELSE r.num

Init == /\ seq = Absent /\ idx = 0 /\ past = {Absent}
        /\ st = [m \in Mgrs |-> "idle"] /\ rd = [m \in Mgrs |-> Absent]
        /\ last = IdStart /\ out = [m \in Mgrs |-> 0]

\* store.Get(sequence key) on the node's replica: any value the record ever had
Read(m) == /\ st[m] = "idle"
           /\ \E r \in past : rd' = [rd EXCEPT ![m] = r]
           /\ st' = [st EXCEPT ![m] = "read"]
           /\ UNCHANGED <<seq, idx, past, last, out>>

\* store.Set(sequence key, next, version read): a log entry either way
Cas(m) == /\ st[m] = "read"
          /\ idx' = idx + 1
          /\ IF seq.ver = 0 \/ seq.ver = rd[m].ver
             THEN \* accepted (an absent record accepts any version)
                  /\ seq' = [num |-> Cur(rd[m]) + 1, ver |-> idx + 1]
                  /\ past' = past \cup {seq'}
                  /\ last' = Cur(rd[m]) + 1
                  /\ out' = [out EXCEPT ![m] = Cur(rd[m]) + 1]
                  /\ st' = [st EXCEPT ![m] = "idle"]
                  /\ UNCHANGED rd
             ELSE \* version mismatch: the store reports the current pair, the manager retries with it
                  /\ rd' = [rd EXCEPT ![m] = seq]
                  /\ UNCHANGED <<seq, past, last, out, st>>

Next == \E m \in Mgrs : Read(m) \/ Cas(m)
Spec == Init /\ [][Next]_vars

(***************************************************************************)
TypeOK == /\ seq \in SeqRec /\ idx \in Nat /\ past \subseteq SeqRec
          /\ st \in [Mgrs -> {"idle", "read"}] /\ rd \in [Mgrs -> SeqRec]
          /\ last \in Nat /\ out \in [Mgrs -> Nat]
\* the record IS the last assignment; versions are unique log indices; the record is absent only before the first one
Inv == /\ TypeOK
       /\ seq \in past /\ seq.ver <= idx
       /\ Cur(seq) = last /\ last >= IdStart
       /\ (seq.ver = 0 => \A r \in past : r.ver = 0)
       /\ \A r \in past : r.ver <= idx /\ (r.ver = seq.ver => Cur(r) = Cur(seq)) /\ Cur(r) <= last
       /\ \A m \in Mgrs : st[m] = "read" => rd[m] \in past
       /\ \A m \in Mgrs : out[m] <= last

\* every allocation returns an id above the reserved range and above EVERY id assigned before
Fresh == \A m \in Mgrs : out'[m] # out[m] => out'[m] > last /\ out'[m] > IdStart /\ last' = out'[m]

THEOREM InitInv == Init => Inv
  BY IdAssm DEF Init, Inv, TypeOK, SeqRec, Absent, Cur

THEOREM NextInv == Inv /\ [Next]_vars => Inv'
  <1> SUFFICES ASSUME Inv, [Next]_vars PROVE Inv' OBVIOUS
  <1> USE IdAssm DEF Inv, TypeOK, SeqRec, Absent, Cur
  <1>1. CASE UNCHANGED vars BY <1>1 DEF vars
  <1>2. ASSUME NEW m \in Mgrs, Read(m) PROVE Inv' BY <1>2 DEF Read
  <1>3. ASSUME NEW m \in Mgrs, Cas(m) PROVE Inv'
    <2>1. CASE seq.ver = 0 \/ seq.ver = rd[m].ver
      <3>1. rd[m] \in past BY <1>3 DEF Cas
      <3>2. Cur(rd[m]) = last BY <2>1, <3>1
      <3>3. /\ seq' = [num |-> last + 1, ver |-> idx + 1] /\ past' = past \cup {seq'} /\ last' = last + 1
            /\ out' = [out EXCEPT ![m] = last + 1] /\ st' = [st EXCEPT ![m] = "idle"] /\ rd' = rd /\ idx' = idx + 1
        BY <1>3, <2>1, <3>2 DEF Cas
      <3> QED BY <3>3
    <2>2. CASE ~(seq.ver = 0 \/ seq.ver = rd[m].ver)
      <3>1. rd' = [rd EXCEPT ![m] = seq] /\ UNCHANGED <<seq, past, last, out, st>> /\ idx' = idx + 1
        BY <1>3, <2>2 DEF Cas
      <3> QED BY <3>1
    <2> QED BY <2>1, <2>2
  <1> QED BY <1>1, <1>2, <1>3 DEF Next

THEOREM StepFresh == Inv /\ [Next]_vars => Fresh
  <1> SUFFICES ASSUME Inv, [Next]_vars, NEW m \in Mgrs, out'[m] # out[m]
               PROVE out'[m] > last /\ out'[m] > IdStart /\ last' = out'[m]
    BY DEF Fresh
  <1> USE IdAssm DEF Inv, TypeOK, SeqRec, Absent, Cur
  <1>1. CASE UNCHANGED vars BY <1>1 DEF vars
  <1>2. ASSUME NEW k \in Mgrs, Read(k) PROVE FALSE BY <1>2 DEF Read
  <1>3. ASSUME NEW k \in Mgrs, Cas(k) PROVE out'[m] > last /\ out'[m] > IdStart /\ last' = out'[m]
    <2>1. CASE seq.ver = 0 \/ seq.ver = rd[k].ver
      <3>1. rd[k] \in past BY <1>3 DEF Cas
      <3>2. Cur(rd[k]) = last BY <2>1, <3>1
      <3>3. out' = [out EXCEPT ![k] = last + 1] /\ last' = last + 1 BY <1>3, <2>1, <3>2 DEF Cas
      <3> QED BY <3>3
    <2>2. CASE ~(seq.ver = 0 \/ seq.ver = rd[k].ver)
      BY <1>3, <2>2 DEF Cas
    <2> QED BY <2>1, <2>2
  <1> QED BY <1>1, <1>2, <1>3 DEF Next

\* ids are handed out in strictly increasing order above the reserved range: never twice
THEOREM Correct == Spec => [][Fresh]_vars
  <1>1. Spec => []Inv BY InitInv, NextInv, PTL DEF Spec
  <1> QED BY <1>1, StepFresh, PTL DEF Spec
=============================================================================
