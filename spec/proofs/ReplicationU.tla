---------------------------- MODULE ReplicationU ----------------------------
(* C05, UNBOUNDED: the core of spec/Replication.tla - a follower table fed by *)
(* a replication worker whose proposals may time out, be proposed again, be   *)
(* committed late or be lost - for ANY log length, ANY message and proposal   *)
(* cuts and ANY number of timeouts, restarts and snapshot recoveries.  The    *)
(* follower table is abstracted to "how often did leader command i take       *)
(* effect" (cnt) plus the recorded leader index; a proposal is an interval    *)
(* [a..b] of leader indices (a SEQUENCE carrying b).  The state machine rule  *)
(* of fix 4128a55 - commands at or below the recorded leader index are        *)
(* skipped, the index never moves backwards - is ApplySeq.  Proved with       *)
(* TLAPS: every leader command in (base, lidx] took effect EXACTLY ONCE, no   *)
(* other did, and lidx never decreases.  (Mode "asis" of Replication.tla, the *)
(* pinned commit, violates this in TLC: MC_Replication_asis.cfg.)             *)
EXTENDS Integers, TLAPS

VARIABLES N,        \* leader: last applied log index
          base,     \* follower: index of the snapshot its current shard started from
          lidx,     \* follower: recorded leader index
          cnt,      \* follower: cnt[i] = how often leader command i took effect on the current shard
          props     \* proposals in flight (being proposed, or given up on but possibly committed later): set of [a, b]
vars == <<N, base, lidx, cnt, props>>

Prop == [a : Nat, b : Nat]
TypeOK == /\ N \in Nat /\ base \in Nat /\ lidx \in Nat
          /\ cnt \in [Nat -> Nat]
          /\ props \subseteq Prop

Init == N = 0 /\ base = 0 /\ lidx = 0 /\ cnt = [i \in Nat |-> 0] /\ props = {}

\* the leader applies another command
Write == N' = N + 1 /\ UNCHANGED <<base, lidx, cnt, props>>

\* the worker reads the recorded leader index (possibly a moment ago: l <= lidx is all it knows), asks the leader for
\* l+1.. and proposes some slice [l+1 .. b] of the answer, b <= N (message and proposal cuts are arbitrary); whether
\* it later gives up on the proposal (timeout) makes no difference to the state machine: the proposal stays in flight
Propose(l, b) == /\ l \in base..lidx /\ b \in (l + 1)..N
                 /\ props' = props \cup {[a |-> l + 1, b |-> b]}
                 /\ UNCHANGED <<N, base, lidx, cnt>>

\* a proposal is committed and applied (in time or late, possibly after others, possibly a repetition): the state machine
\* skips the commands at or below the recorded leader index and never moves the index backwards
ApplySeq(p) == /\ p \in props
               /\ cnt' = [i \in Nat |-> IF i >= p.a /\ i <= p.b /\ i > lidx THEN cnt[i] + 1 ELSE cnt[i]]
               /\ lidx' = IF p.b > lidx THEN p.b ELSE lidx
               /\ UNCHANGED <<N, base>>
               /\ props' \in {props, props \ {p}}          \* (the same bytes may be committed again: a re-proposal)
\* a proposal is lost
Drop(p) == p \in props /\ props' = props \ {p} /\ UNCHANGED <<N, base, lidx, cnt>>

\* recovery from a leader snapshot taken at index s: the leader answers "use snapshot" only for an index it has compacted,
\* and every proposal in flight was cut from the log before the snapshot was taken, so lidx <= s <= N; the follower
\* switches to a fresh shard holding exactly the leader content at s; proposals to the old shard die with it
Switch(s) == /\ s \in lidx..N
             /\ base' = s /\ lidx' = s /\ cnt' = [i \in Nat |-> 0] /\ props' = {}
             /\ UNCHANGED N

Next == \/ Write
        \/ \E l, b \in Nat : Propose(l, b)
        \/ \E p \in props : ApplySeq(p) \/ Drop(p)
        \/ \E s \in Nat : Switch(s)
Spec == Init /\ [][Next]_vars

(***************************************************************************)
\* every leader command in (base, lidx] took effect exactly once on the follower, no other command did
ExactlyOnce == \A i \in Nat : cnt[i] = IF i > base /\ i <= lidx THEN 1 ELSE 0
\* proposals never leave a gap and never run ahead of the leader
NoGap == \A p \in props : p.a > base /\ p.a <= lidx + 1 /\ p.a <= p.b /\ p.b <= N
Bounds == base <= lidx /\ lidx <= N
IndInv == TypeOK /\ ExactlyOnce /\ NoGap /\ Bounds

IndexMonotone == [][lidx' >= lidx]_vars

THEOREM InitInv == Init => IndInv
  BY DEF Init, IndInv, TypeOK, ExactlyOnce, NoGap, Bounds, Prop

THEOREM NextInv == IndInv /\ [Next]_vars => IndInv'
  <1> SUFFICES ASSUME IndInv, [Next]_vars PROVE IndInv' OBVIOUS
  <1> USE DEF IndInv, TypeOK, ExactlyOnce, NoGap, Bounds, Prop
  <1>1. CASE UNCHANGED vars BY <1>1 DEF vars
  <1>2. CASE Write BY <1>2 DEF Write
  <1>3. ASSUME NEW l \in Nat, NEW b \in Nat, Propose(l, b) PROVE IndInv' BY <1>3 DEF Propose
  <1>4. ASSUME NEW p \in props, ApplySeq(p) PROVE IndInv'
    <2>1. TypeOK' BY <1>4 DEF ApplySeq
    <2>2. Bounds' BY <1>4 DEF ApplySeq
    <2>3. NoGap' BY <1>4 DEF ApplySeq
    <2>4. ExactlyOnce'
      <3> SUFFICES ASSUME NEW i \in Nat PROVE cnt'[i] = IF i > base' /\ i <= lidx' THEN 1 ELSE 0
        BY DEF ExactlyOnce
      <3>1. cnt'[i] = IF i >= p.a /\ i <= p.b /\ i > lidx THEN cnt[i] + 1 ELSE cnt[i] BY <1>4 DEF ApplySeq
      <3>2. base' = base /\ lidx' = (IF p.b > lidx THEN p.b ELSE lidx) BY <1>4 DEF ApplySeq
      <3>3. p.a > base /\ p.a <= lidx + 1 /\ p.a <= p.b OBVIOUS
      <3> QED BY <3>1, <3>2, <3>3
    <2> QED BY <2>1, <2>2, <2>3, <2>4
  <1>5. ASSUME NEW p \in props, Drop(p) PROVE IndInv' BY <1>5 DEF Drop
  <1>6. ASSUME NEW s \in Nat, Switch(s) PROVE IndInv' BY <1>6 DEF Switch
  <1> QED BY <1>1, <1>2, <1>3, <1>4, <1>5, <1>6 DEF Next

THEOREM Monotone == IndInv /\ [Next]_vars => lidx' >= lidx
  <1> SUFFICES ASSUME IndInv, [Next]_vars PROVE lidx' >= lidx OBVIOUS
  <1> USE DEF IndInv, TypeOK, Bounds, Prop
  <1>1. CASE UNCHANGED vars BY <1>1 DEF vars
  <1>2. CASE Write BY <1>2 DEF Write
  <1>3. ASSUME NEW l \in Nat, NEW b \in Nat, Propose(l, b) PROVE lidx' >= lidx BY <1>3 DEF Propose
  <1>4. ASSUME NEW p \in props, ApplySeq(p) PROVE lidx' >= lidx BY <1>4 DEF ApplySeq
  <1>5. ASSUME NEW p \in props, Drop(p) PROVE lidx' >= lidx BY <1>5 DEF Drop
  <1>6. ASSUME NEW s \in Nat, Switch(s) PROVE lidx' >= lidx BY <1>6 DEF Switch
  <1> QED BY <1>1, <1>2, <1>3, <1>4, <1>5, <1>6 DEF Next

THEOREM Correct == Spec => []ExactlyOnce /\ IndexMonotone
  <1>1. Spec => []IndInv BY InitInv, NextInv, PTL DEF Spec
  <1>2. Spec => []ExactlyOnce BY <1>1, PTL DEF IndInv
  <1>3. Spec => IndexMonotone BY <1>1, Monotone, PTL DEF Spec, IndexMonotone
  <1> QED BY <1>2, <1>3
=============================================================================
