------------------------------- MODULE LeaseU -------------------------------
(* C15, UNBOUNDED: the lease protocol of spec/Lease.tla (read - decide -     *)
(* compare-and-set on one metadata-store record) for ANY set of nodes and    *)
(* ANY number of lease / renew / return calls, with the safety argument as   *)
(* an inductive invariant checked by TLAPS (tlapm).  Lease.tla is the same   *)
(* protocol with a bounded program per node (for exhaustive TLC runs and     *)
(* schedule export); TLC also checks IndInv of this module on Lease.tla's    *)
(* reachable states (MC_Lease_quick.cfg: INVARIANT IndInvL).                 *)
EXTENDS Integers, FiniteSets, TLAPS

CONSTANT Nodes
ASSUME NodesAssm == Nodes \subseteq Nat \ {0}      \* owner 0 stands for "no record"

None == [owner |-> 0, until |-> "none", ver |-> 0]
Kinds == {"LL", "LE", "RT"}     \* lease (running), lease (already expired when written), return
Recs == [owner : Nodes, until : {"future", "past"}, ver : Nat \ {0}] \cup {None}

VARIABLES rec,      \* the lease record in the store, or None
          idx,      \* last log index of the metadata shard (versions are log indices)
          phase,    \* node -> "idle" | "write" (read done, decided to write)
          kind,     \* node -> kind of the call in progress
          rd,       \* node -> record read by the call in progress
          held      \* GHOST: nodes holding a running lease they have not returned
vars == <<rec, idx, phase, kind, rd, held>>

Init == /\ rec = None /\ idx = 0
        /\ phase = [n \in Nodes |-> "idle"]
        /\ kind = [n \in Nodes |-> "RT"]
        /\ rd = [n \in Nodes |-> None]
        /\ held = {}

\* what LeaseTable / ReturnTable decide on the record they read
MayWrite(n, k, r) == IF k \in {"LL", "LE"} THEN r = None \/ r.owner = n \/ r.until = "past"
                     ELSE r # None /\ r.owner = n

Read(n, k) ==
  /\ phase[n] = "idle"
  /\ rd' = [rd EXCEPT ![n] = rec]
  /\ kind' = [kind EXCEPT ![n] = k]
  /\ phase' = IF MayWrite(n, k, rec) THEN [phase EXCEPT ![n] = "write"] ELSE phase
  /\ UNCHANGED <<rec, idx, held>>

\* the store accepts a write if the record is absent or carries the version that was read
CasOK(n) == rec = None \/ rec.ver = rd[n].ver

Write(n) ==
  /\ phase[n] = "write"
  /\ idx' = idx + 1
  /\ phase' = [phase EXCEPT ![n] = "idle"]
  /\ UNCHANGED <<kind, rd>>
  /\ IF ~CasOK(n) THEN UNCHANGED <<rec, held>>
     ELSE IF kind[n] \in {"LL", "LE"}
          THEN /\ rec' = [owner |-> n, until |-> IF kind[n] = "LL" THEN "future" ELSE "past", ver |-> idx + 1]
               /\ held' = IF kind[n] = "LL" THEN (held \ {rec.owner}) \cup {n} ELSE held \ {rec.owner, n}
          ELSE /\ rec' = None
               /\ held' = held \ {rec.owner}

Next == \E n \in Nodes : (\E k \in Kinds : Read(n, k)) \/ Write(n)
Spec == Init /\ [][Next]_vars

(***************************************************************************)
(* The inductive invariant                                                 *)
(***************************************************************************)
TypeOK == /\ rec \in Recs /\ idx \in Nat
          /\ phase \in [Nodes -> {"idle", "write"}]
          /\ kind \in [Nodes -> Kinds]
          /\ rd \in [Nodes -> Recs]
          /\ held \subseteq Nodes
\* versions are log indices handed out once: a record read earlier that carries the store's current version IS the
\* store's current record
Versions == /\ rec.ver <= idx
            /\ \A n \in Nodes : rd[n].ver <= idx
            /\ \A n \in Nodes : (rd[n] # None /\ rec # None /\ rd[n].ver = rec.ver) => rd[n] = rec
\* a node about to write decided so on the record it read
Decided == \A n \in Nodes : phase[n] = "write" => MayWrite(n, kind[n], rd[n])
\* the ghost: exactly the owner of a running lease holds
Holder == held = IF rec.until = "future" THEN {rec.owner} ELSE {}

IndInv == TypeOK /\ Versions /\ Decided /\ Holder

(***************************************************************************)
(* C15                                                                     *)
(***************************************************************************)
AtMostOneHolder == \A a, b \in held : a = b
\* a running lease of ANOTHER node is never overwritten or removed
LiveOther(n) == rec # None /\ rec.owner # n /\ rec.until = "future"
GrantSafe == \A n \in Nodes : (Write(n) /\ rec' # rec) => ~LiveOther(n)

\* for the TLC sanity run of this module (MC_LeaseU.cfg): the step property as TLC checks it, and a bound on the log
GrantSafeStep == [][GrantSafe]_vars
Bound == idx < 7

THEOREM InitInv == Init => IndInv
  BY NodesAssm DEF Init, IndInv, TypeOK, Versions, Decided, Holder, None, Recs, Kinds, MayWrite

THEOREM ReadInv == ASSUME IndInv, NEW n \in Nodes, NEW k \in Kinds, Read(n, k) PROVE IndInv'
  <1>1. TypeOK'
    BY NodesAssm DEF IndInv, TypeOK, Read, Recs, None, Kinds
  <1>2. Versions'
    BY NodesAssm DEF IndInv, TypeOK, Versions, Read, Recs, None
  <1>3. Decided'
    BY NodesAssm DEF IndInv, TypeOK, Decided, Read, MayWrite, Recs, None, Kinds
  <1>4. Holder'
    BY DEF IndInv, Holder, Read
  <1> QED BY <1>1, <1>2, <1>3, <1>4 DEF IndInv

THEOREM WriteInv == ASSUME IndInv, NEW n \in Nodes, Write(n) PROVE IndInv'
  <1> USE NodesAssm
  <1>1. TypeOK'
    BY DEF IndInv, TypeOK, Write, CasOK, Recs, None, Kinds
  <1>2. Versions'
    BY DEF IndInv, TypeOK, Versions, Write, CasOK, Recs, None, Kinds
  <1>3. Decided'
    BY DEF IndInv, TypeOK, Decided, Write, MayWrite
  <1>4. Holder'
    <2>0. held = IF rec.until = "future" THEN {rec.owner} ELSE {}
      BY DEF IndInv, Holder
    <2>1. CASE ~CasOK(n)
      BY <2>0, <2>1 DEF Holder, Write
    <2>2. CASE CasOK(n) /\ kind[n] = "LL"
      <3>1. rec' = [owner |-> n, until |-> "future", ver |-> idx + 1] /\ held' = (held \ {rec.owner}) \cup {n}
        BY <2>2 DEF Write
      <3>2. held \ {rec.owner} = {}
        BY <2>0
      <3> QED BY <3>1, <3>2 DEF Holder
    <2>3. CASE CasOK(n) /\ kind[n] = "LE"
      <3>1. rec' = [owner |-> n, until |-> "past", ver |-> idx + 1] /\ held' = held \ {rec.owner, n}
        BY <2>3 DEF Write
      <3>2. held \ {rec.owner, n} = {}
        BY <2>0
      <3> QED BY <3>1, <3>2 DEF Holder
    <2>4. CASE CasOK(n) /\ kind[n] = "RT"
      <3>1. rec' = None /\ held' = held \ {rec.owner}
        BY <2>4 DEF Write
      <3>2. held \ {rec.owner} = {}
        BY <2>0
      <3> QED BY <3>1, <3>2 DEF Holder, None
    <2> QED BY <2>1, <2>2, <2>3, <2>4 DEF IndInv, TypeOK, Kinds
  <1> QED BY <1>1, <1>2, <1>3, <1>4 DEF IndInv

THEOREM NextInv == IndInv /\ [Next]_vars => IndInv'
  <1> SUFFICES ASSUME IndInv, [Next]_vars PROVE IndInv' OBVIOUS
  <1>1. CASE UNCHANGED vars
    BY <1>1 DEF IndInv, TypeOK, Versions, Decided, Holder, vars, MayWrite
  <1>2. CASE Next
    BY <1>2, ReadInv, WriteInv DEF Next
  <1> QED BY <1>1, <1>2

THEOREM Safe1 == IndInv => AtMostOneHolder
  BY DEF IndInv, Holder, AtMostOneHolder

THEOREM Safe2 == IndInv => GrantSafe
  <1> SUFFICES ASSUME IndInv, NEW n \in Nodes, Write(n), rec' # rec, LiveOther(n) PROVE FALSE
    BY DEF GrantSafe
  <1> USE NodesAssm
  <1>1. CasOK(n) BY DEF Write
  <1>2. rec # None /\ rec.ver = rd[n].ver BY <1>1 DEF CasOK, LiveOther
  <1>3. rd[n] # None BY <1>2 DEF IndInv, TypeOK, Recs, None
  <1>4. rd[n] = rec BY <1>2, <1>3 DEF IndInv, Versions
  <1>5. MayWrite(n, kind[n], rec) BY <1>4 DEF IndInv, Decided, Write
  <1> QED BY <1>5 DEF MayWrite, LiveOther, IndInv, TypeOK, Kinds

THEOREM Correct == Spec => []AtMostOneHolder /\ [][GrantSafe]_vars
  <1>1. Spec => []IndInv
    BY InitInv, NextInv, PTL DEF Spec
  <1> QED BY <1>1, Safe1, Safe2, PTL
=============================================================================
