----------------------------- MODULE ShardViewU -----------------------------
(* C19, UNBOUNDED: the per-shard view of spec/ShardView.tla (Merge =          *)
(* mergeShardInfo of storage/cluster/view.go) for ANY set of nodes, ANY        *)
(* Raft-consistent universe of updates (one membership per config-change      *)
(* index, one leader per term) and ANY sequence of deliveries and gossip      *)
(* exchanges.  Proved with TLAPS: every node's view IS the join of the SET of *)
(* updates that reached it (IsJoin), and a set has exactly one join - so the  *)
(* view does not depend on order, batching or repetition.  TLC checks on the  *)
(* bounded universe of MC_ShardView that IsJoin coincides with the            *)
(* CHOOSE-based Join of ShardView.tla (MC_ShardView: INVARIANT JoinAgrees).   *)
EXTENDS Integers, FiniteSets, TLAPS

CONSTANTS Nodes, RepsOf, LeaderOf
ASSUME Universe == /\ RepsOf \in [Nat -> Nat] /\ RepsOf[0] = 0
                   /\ LeaderOf \in [Nat -> Nat \ {0}]

NoLeader == 0
Info == [cc : Nat, reps : Nat, leader : Nat, term : Nat]
Empty == [cc |-> 0, reps |-> 0, leader |-> NoLeader, term |-> 0]
\* what Raft can report about one shard
Updates == {u \in Info : u.reps = RepsOf[u.cc] /\ (u.leader # NoLeader => u.term > 0 /\ u.leader = LeaderOf[u.term])}

\* mergeShardInfo(current, update)
Merge(cur, u) ==
  LET c1 == IF cur.cc < u.cc THEN [cur EXCEPT !.cc = u.cc, !.reps = u.reps] ELSE cur
  IN IF u.leader # NoLeader /\ (c1.leader = NoLeader \/ u.term > c1.term)
     THEN [c1 EXCEPT !.leader = u.leader, !.term = u.term] ELSE c1

\* v is the join of the set S of updates
IsJoin(v, S) ==
  /\ v \in Info
  /\ v.cc = 0 \/ \E u \in S : u.cc = v.cc
  /\ \A u \in S : u.cc <= v.cc
  /\ v.reps = RepsOf[v.cc]
  /\ (v.leader = NoLeader) <=> (\A u \in S : u.leader = NoLeader)
  /\ v.leader = NoLeader => v.term = 0
  /\ v.leader # NoLeader => /\ v.term > 0 /\ v.leader = LeaderOf[v.term]
                            /\ \E u \in S : u.leader # NoLeader /\ u.term = v.term
                            /\ \A u \in S : u.leader # NoLeader => u.term <= v.term

VARIABLES view, delivered
vars == <<view, delivered>>

Init == view = [n \in Nodes |-> Empty] /\ delivered = [n \in Nodes |-> {}]
Deliver(n, u) == /\ view' = [view EXCEPT ![n] = Merge(@, u)]
                 /\ delivered' = [delivered EXCEPT ![n] = @ \cup {u}]
\* push-pull: the whole view of node a is merged into node b as one update
Gossip(a, b) == /\ view' = [view EXCEPT ![b] = Merge(@, view[a])]
                /\ delivered' = [delivered EXCEPT ![b] = @ \cup delivered[a]]
Next == (\E n \in Nodes, u \in Updates : Deliver(n, u)) \/ (\E a, b \in Nodes : Gossip(a, b))
Spec == Init /\ [][Next]_vars

Inv == /\ view \in [Nodes -> Info]
       /\ delivered \in [Nodes -> SUBSET Updates]
       /\ \A n \in Nodes : IsJoin(view[n], delivered[n])

(***************************************************************************)
LEMMA JoinUnique == ASSUME NEW S \in SUBSET Updates, NEW v, NEW w, IsJoin(v, S), IsJoin(w, S) PROVE v = w
  <1> USE Universe
  <1>1. v.cc = w.cc
    BY DEF IsJoin, Info, Updates
  <1>2. v.reps = w.reps
    BY <1>1 DEF IsJoin
  <1>3. v.leader = NoLeader <=> w.leader = NoLeader
    BY DEF IsJoin
  <1>4. v.term = w.term
    <2>1. CASE v.leader = NoLeader BY <2>1, <1>3 DEF IsJoin
    <2>2. CASE v.leader # NoLeader BY <2>2, <1>3 DEF IsJoin, Info, Updates
    <2> QED BY <2>1, <2>2
  <1>5. v.leader = w.leader
    BY <1>3, <1>4 DEF IsJoin
  <1> QED BY <1>1, <1>2, <1>4, <1>5 DEF IsJoin, Info

LEMMA MergeUpdate == ASSUME NEW S \in SUBSET Updates, NEW v, IsJoin(v, S), NEW u \in Updates
                     PROVE IsJoin(Merge(v, u), S \cup {u})
  <1> USE Universe
  <1> DEFINE c1 == IF v.cc < u.cc THEN [v EXCEPT !.cc = u.cc, !.reps = u.reps] ELSE v
  <1> DEFINE r == IF u.leader # NoLeader /\ (c1.leader = NoLeader \/ u.term > c1.term)
                  THEN [c1 EXCEPT !.leader = u.leader, !.term = u.term] ELSE c1
  <1>0. Merge(v, u) = r BY DEF Merge
  <1>1. v \in Info /\ u \in Info BY DEF IsJoin, Updates
  <1>2. c1 \in Info /\ c1.leader = v.leader /\ c1.term = v.term BY <1>1 DEF Info
  <1>3. r \in Info BY <1>1, <1>2 DEF Info
  <1>4. r.cc = c1.cc /\ r.reps = c1.reps BY <1>1, <1>2 DEF Info
  <1>5. /\ r.cc = 0 \/ \E x \in S \cup {u} : x.cc = r.cc
        /\ \A x \in S \cup {u} : x.cc <= r.cc
        /\ r.reps = RepsOf[r.cc]
    BY <1>1, <1>4 DEF IsJoin, Info, Updates
  <1>6. /\ (r.leader = NoLeader) <=> (\A x \in S \cup {u} : x.leader = NoLeader)
        /\ r.leader = NoLeader => r.term = 0
        /\ r.leader # NoLeader => /\ r.term > 0 /\ r.leader = LeaderOf[r.term]
                                  /\ \E x \in S \cup {u} : x.leader # NoLeader /\ x.term = r.term
                                  /\ \A x \in S \cup {u} : x.leader # NoLeader => x.term <= r.term
    <2>1. CASE u.leader # NoLeader /\ (c1.leader = NoLeader \/ u.term > c1.term)
      <3>1. r.leader = u.leader /\ r.term = u.term BY <2>1, <1>1, <1>2 DEF Info
      <3> QED BY <3>1, <2>1, <1>1, <1>2 DEF IsJoin, Info, Updates, NoLeader
    <2>2. CASE ~(u.leader # NoLeader /\ (c1.leader = NoLeader \/ u.term > c1.term))
      <3>1. r.leader = v.leader /\ r.term = v.term BY <2>2, <1>2
      <3> QED BY <3>1, <2>2, <1>1, <1>2 DEF IsJoin, Info, Updates, NoLeader
    <2> QED BY <2>1, <2>2
  <1> QED BY <1>0, <1>3, <1>5, <1>6 DEF IsJoin

LEMMA MergeView == ASSUME NEW S \in SUBSET Updates, NEW T \in SUBSET Updates, NEW v, NEW w, IsJoin(v, S), IsJoin(w, T)
                   PROVE IsJoin(Merge(v, w), S \cup T)
  <1> USE Universe
  <1> DEFINE c1 == IF v.cc < w.cc THEN [v EXCEPT !.cc = w.cc, !.reps = w.reps] ELSE v
  <1> DEFINE r == IF w.leader # NoLeader /\ (c1.leader = NoLeader \/ w.term > c1.term)
                  THEN [c1 EXCEPT !.leader = w.leader, !.term = w.term] ELSE c1
  <1>0. Merge(v, w) = r BY DEF Merge
  <1>1. v \in Info /\ w \in Info BY DEF IsJoin
  <1>2. c1 \in Info /\ c1.leader = v.leader /\ c1.term = v.term BY <1>1 DEF Info
  <1>3. r \in Info BY <1>1, <1>2 DEF Info
  <1>4. r.cc = c1.cc /\ r.reps = c1.reps BY <1>1, <1>2 DEF Info
  <1>5. /\ r.cc = 0 \/ \E x \in S \cup T : x.cc = r.cc
        /\ \A x \in S \cup T : x.cc <= r.cc
        /\ r.reps = RepsOf[r.cc]
    BY <1>1, <1>4 DEF IsJoin, Info, Updates
  <1>6. /\ (r.leader = NoLeader) <=> (\A x \in S \cup T : x.leader = NoLeader)
        /\ r.leader = NoLeader => r.term = 0
        /\ r.leader # NoLeader => /\ r.term > 0 /\ r.leader = LeaderOf[r.term]
                                  /\ \E x \in S \cup T : x.leader # NoLeader /\ x.term = r.term
                                  /\ \A x \in S \cup T : x.leader # NoLeader => x.term <= r.term
    <2>1. CASE w.leader # NoLeader /\ (c1.leader = NoLeader \/ w.term > c1.term)
      <3>1. r.leader = w.leader /\ r.term = w.term BY <2>1, <1>1, <1>2 DEF Info
      <3> QED BY <3>1, <2>1, <1>1, <1>2 DEF IsJoin, Info, Updates, NoLeader
    <2>2. CASE ~(w.leader # NoLeader /\ (c1.leader = NoLeader \/ w.term > c1.term))
      <3>1. r.leader = v.leader /\ r.term = v.term BY <2>2, <1>2
      <3> QED BY <3>1, <2>2, <1>1, <1>2 DEF IsJoin, Info, Updates, NoLeader
    <2> QED BY <2>1, <2>2
  <1> QED BY <1>0, <1>3, <1>5, <1>6 DEF IsJoin

THEOREM InitInv == Init => Inv
  BY Universe DEF Init, Inv, IsJoin, Empty, Info, NoLeader

THEOREM NextInv == Inv /\ [Next]_vars => Inv'
  <1> SUFFICES ASSUME Inv, [Next]_vars PROVE Inv' OBVIOUS
  <1>1. CASE UNCHANGED vars BY <1>1 DEF Inv, vars
  <1>2. ASSUME NEW n \in Nodes, NEW u \in Updates, Deliver(n, u) PROVE Inv'
    <2>1. IsJoin(Merge(view[n], u), delivered[n] \cup {u}) BY MergeUpdate DEF Inv
    <2>2. Merge(view[n], u) \in Info BY <2>1 DEF IsJoin
    <2> QED BY <1>2, <2>1, <2>2 DEF Inv, Deliver
  <1>3. ASSUME NEW a \in Nodes, NEW b \in Nodes, Gossip(a, b) PROVE Inv'
    <2>1. IsJoin(Merge(view[b], view[a]), delivered[b] \cup delivered[a]) BY MergeView DEF Inv
    <2>2. Merge(view[b], view[a]) \in Info BY <2>1 DEF IsJoin
    <2> QED BY <1>3, <2>1, <2>2 DEF Inv, Gossip
  <1> QED BY <1>1, <1>2, <1>3 DEF Next

\* every node's view is THE join of the set of updates that reached it, in every reachable state
THEOREM Correct == Spec => []Inv
  BY InitInv, NextInv, PTL DEF Spec
=============================================================================
