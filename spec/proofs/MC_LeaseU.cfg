SPECIFICATION Spec
CONSTANTS
  Nodes = {1, 2, 3}
INVARIANTS IndInv AtMostOneHolder
PROPERTIES GrantSafeStep
CONSTRAINT Bound
CHECK_DEADLOCK FALSE
