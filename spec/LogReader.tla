------------------------------ MODULE LogReader ------------------------------
(* C06: the leader side of log replication.  Transcription of                 *)
(* storage/logreader (cache.get / put / makeRoomAndAppend, Cached and Simple  *)
(* QueryRaftLog, readLog, fixSize) and of the LogServer.Replicate loop, over  *)
(* a Raft log with compaction marker as dragonboat's ReadonlyLogReader        *)
(* presents it (GetRange, Entries with "at least one entry").                 *)
(* Entries are identified by their index; sz[i] is the size of entry i.       *)
(* Mode = "asis" transcribes the pinned commit, "fixed" the repaired code.    *)
EXTENDS Integers, Sequences, FiniteSets, TLC, Json

CONSTANTS MaxLog, CacheSize, MaxSize, Sizes, Sessions, Mode, Record, Sample

None == [f |-> 0, l |-> 0]

VARIABLES N,        \* last index of the Raft log
          m,        \* compaction marker: entries <= m are gone (first = m + 1)
          a,        \* applied index (a <= N)
          sz,       \* index -> size
          buf,      \* the shard's cache buffer: sequence of indices
          ses,      \* session -> [st: "idle" | "run" | "done", req, f, L]
          out,      \* session -> sequence of messages [kind, idx (sequence of indices), li]
          hist
vars == <<N, m, a, sz, buf, ses, out, hist>>

(***************************************************************************)
(* dragonboat ReadonlyLogReader                                            *)
(***************************************************************************)
RFirst == m + 1
RLast == N
Range(lo, hi) == [i \in 1..(hi - lo) |-> lo + i - 1]       \* indices lo .. hi-1
RECURSIVE SumSz(_)
SumSz(s) == IF s = <<>> THEN 0 ELSE sz[Head(s)] + SumSz(Tail(s))
\* Entries(low, high, maxSize): the longest prefix whose total size is <= maxSize, but at least one entry
DbEntries(lo, hi, max) ==
  LET all == Range(lo, hi)
      fit == {k \in 1..Len(all) : SumSz(SubSeq(all, 1, k)) <= max}
      k == IF fit = {} THEN 1 ELSE CHOOSE x \in fit : \A y \in fit : y <= x
  IN SubSeq(all, 1, k)

\* readLog
ReadLog(r, max) ==
  IF RLast + 1 = r.f THEN [err |-> "", ents |-> <<>>]
  ELSE IF RLast < r.f THEN [err |-> "behind", ents |-> <<>>]
  ELSE IF r.f < RFirst THEN [err |-> "ahead", ents |-> <<>>]
  ELSE [err |-> "", ents |-> DbEntries(r.f, r.l, max)]

\* fixSize
FixSize(ents, max) ==
  LET hit == {i \in 1..Len(ents) : SumSz(SubSeq(ents, 1, i)) >= max}
  IN IF hit = {} THEN ents
     ELSE LET i == CHOOSE x \in hit : \A y \in hit : x <= y      \* 1-based position of the entry that reaches max
          IN IF Mode \in {"fixed", "fix1"} /\ i = 1 THEN SubSeq(ents, 1, 1)   \* repaired: never less than one entry
             ELSE SubSeq(ents, 1, i - 1)

(***************************************************************************)
(* cache.go                                                                *)
(***************************************************************************)
Smallest(b) == IF b = <<>> THEN 0 ELSE b[1]
Largest(b) == IF b = <<>> THEN 0 ELSE b[Len(b)]
\* findIndex: 1-based position of the first entry satisfying the (monotone) predicate, Len+1 if none
FindGE(b, x) == LET s == {j \in 1..Len(b) : b[j] >= x} IN IF s = {} THEN Len(b) + 1 ELSE CHOOSE j \in s : \A k \in s : j <= k
FindGT(b, x) == LET s == {j \in 1..Len(b) : b[j] > x} IN IF s = {} THEN Len(b) + 1 ELSE CHOOSE j \in s : \A k \in s : j <= k

Get(b, r) ==
  IF b = <<>> THEN [ents |-> <<>>, pre |-> r, app |-> None]
  ELSE IF Smallest(b) > r.l THEN [ents |-> <<>>, pre |-> r, app |-> None]
  ELSE IF Largest(b) < r.f THEN [ents |-> <<>>, pre |-> None, app |-> r]
  ELSE LET start == FindGE(b, r.f)
           end == FindGE(b, r.l)
           ents == SubSeq(b, start, end - 1)
       IN IF ents = <<>>
          THEN IF Mode = "fixed" THEN [ents |-> <<>>, pre |-> r, app |-> None]     \* repaired: nothing cached for this range
               ELSE [ents |-> <<>>, pre |-> None, app |-> None]
          ELSE [ents |-> ents,
                pre |-> IF r.f < Smallest(b) THEN [f |-> r.f, l |-> Smallest(b)] ELSE None,
                app |-> IF r.l > Largest(b) + 1 THEN [f |-> Largest(b) + 1, l |-> r.l] ELSE None]

MakeRoomAndAppend(b, ents) ==
  LET b1 == IF CacheSize < Len(ents) + Len(b) THEN SubSeq(b, Len(ents) + Len(b) - CacheSize + 1, Len(b)) ELSE b
  IN b1 \o ents

Put(b, ents0) ==
  IF ents0 = <<>> THEN b
  ELSE LET ents == IF Len(ents0) > CacheSize THEN SubSeq(ents0, Len(ents0) - CacheSize + 1, Len(ents0)) ELSE ents0
           maxI == Largest(b)
       IN IF maxI = 0 THEN MakeRoomAndAppend(b, ents)
          ELSE LET i == FindGT(ents, maxI) IN
               IF i = Len(ents) + 1 THEN b ELSE MakeRoomAndAppend(b, SubSeq(ents, i, Len(ents)))

(***************************************************************************)
(* QueryRaftLog                                                            *)
(***************************************************************************)
QuerySimple(r, max) == IF r.f = r.l THEN [err |-> "", ents |-> <<>>, buf |-> buf] ELSE ReadLog(r, max) @@ [buf |-> buf]

QueryCached(r, max) ==
  IF r.f = r.l THEN [err |-> "", ents |-> <<>>, buf |-> buf]
  ELSE LET g == Get(buf, r) IN
       IF g.pre # None
       THEN LET le == ReadLog(g.pre, max) IN
            IF le.err # "" THEN [err |-> le.err, ents |-> <<>>, buf |-> buf]
            ELSE IF le.ents = <<>> THEN [err |-> "", ents |-> FixSize(g.ents, max), buf |-> buf]
            ELSE IF g.ents # <<>> /\ le.ents[Len(le.ents)] = g.ents[1] - 1
                 THEN [err |-> "", ents |-> FixSize(le.ents \o g.ents, max), buf |-> buf]
                 ELSE [err |-> "", ents |-> le.ents, buf |-> IF buf = <<>> THEN Put(buf, le.ents) ELSE buf]
       ELSE IF g.app # None
       THEN LET le == ReadLog(g.app, max) IN
            IF le.err # "" THEN [err |-> le.err, ents |-> <<>>, buf |-> buf]
            ELSE IF le.ents = <<>> THEN [err |-> "", ents |-> FixSize(g.ents, max), buf |-> buf]
            ELSE IF g.ents # <<>> THEN [err |-> "", ents |-> FixSize(g.ents \o le.ents, max), buf |-> Put(buf, le.ents)]
            ELSE [err |-> "", ents |-> le.ents, buf |-> IF le.ents[1] - 1 = Largest(buf) THEN Put(buf, le.ents) ELSE buf]
       ELSE [err |-> "", ents |-> FixSize(g.ents, max), buf |-> buf]

(***************************************************************************)
(* the log                                                                 *)
(***************************************************************************)
Log(e) == hist' = IF Record THEN Append(hist, e) ELSE hist
Init == /\ N = 0 /\ m = 0 /\ a = 0 /\ sz = [i \in 1..MaxLog |-> 1] /\ buf = <<>>
        /\ ses = [s \in Sessions |-> [st |-> "idle", req |-> 0, f |-> 0, L |-> 0]]
        /\ out = [s \in Sessions |-> <<>>] /\ hist = <<>>

\* a new entry is appended and (for brevity) applied at once, or stays unapplied for a while
AppendEntry(s0, applyNow) ==
  /\ N < MaxLog
  /\ N' = N + 1 /\ sz' = [sz EXCEPT ![N + 1] = s0]
  /\ a' = IF applyNow THEN N + 1 ELSE a
  /\ applyNow => a = N
  /\ Log([t |-> "append", size |-> s0, apply |-> applyNow])
  /\ UNCHANGED <<m, buf, ses, out>>
ApplyOne == /\ a < N /\ a' = a + 1 /\ Log([t |-> "apply"]) /\ UNCHANGED <<N, m, sz, buf, ses, out>>
\* log compaction; the engine's event listener drops the shard's cache (assumed atomic with the compaction)
Compact(k) == /\ k > m /\ k <= a /\ m' = k /\ buf' = <<>> /\ Log([t |-> "compact", to |-> k])
              /\ UNCHANGED <<N, a, sz, ses, out>>

\* LogServer.Replicate, first part: validate, read the applied index, fix the range end
Start(s, first) ==
  /\ ses[s].st = "idle" /\ first >= 1
  /\ Log([t |-> "start", s |-> s, first |-> first])
  /\ IF a + 1 < first
     THEN /\ out' = [out EXCEPT ![s] = Append(@, [kind |-> "LEADER_BEHIND", idx |-> <<>>, li |-> 0])]
          /\ ses' = [ses EXCEPT ![s] = [st |-> "done", req |-> first, f |-> first, L |-> a + 1]]
     ELSE /\ ses' = [ses EXCEPT ![s] = [st |-> "run", req |-> first, f |-> first, L |-> a + 1]]
          /\ out' = out
  /\ UNCHANGED <<N, m, a, sz, buf>>

\* one iteration of the Replicate loop
Step(s, cached) ==
  /\ ses[s].st = "run"
  /\ Log([t |-> "step", s |-> s])
  /\ \E q \in {IF cached THEN QueryCached([f |-> ses[s].f, l |-> ses[s].L], MaxSize) ELSE QuerySimple([f |-> ses[s].f, l |-> ses[s].L], MaxSize)} :
       /\ buf' = q.buf
       /\ IF q.err = "behind" THEN /\ out' = [out EXCEPT ![s] = Append(@, [kind |-> "LEADER_BEHIND", idx |-> <<>>, li |-> 0])]
                                   /\ ses' = [ses EXCEPT ![s].st = "done"]
          ELSE IF q.err = "ahead" THEN /\ out' = [out EXCEPT ![s] = Append(@, [kind |-> "USE_SNAPSHOT", idx |-> <<>>, li |-> 0])]
                                       /\ ses' = [ses EXCEPT ![s].st = "done"]
          ELSE IF q.ents = <<>> THEN /\ out' = [out EXCEPT ![s] = Append(@, [kind |-> "EMPTY", idx |-> <<>>, li |-> a])]
                                     /\ ses' = [ses EXCEPT ![s].st = "done"]
          ELSE /\ out' = [out EXCEPT ![s] = Append(@, [kind |-> "CMDS", idx |-> q.ents, li |-> 0])]
               /\ LET next == q.ents[Len(q.ents)] + 1 IN
                  ses' = [ses EXCEPT ![s].f = IF next < ses[s].L THEN next ELSE ses[s].L]
  /\ UNCHANGED <<N, m, a, sz>>
=============================================================================
