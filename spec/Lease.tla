-------------------------------- MODULE Lease --------------------------------
(* C15: the replication lease of ONE table, kept as a record in the metadata  *)
(* store and taken / renewed / returned by the nodes of a follower cluster    *)
(* with read - decide - compare-and-set (storage/table/manager.go LeaseTable, *)
(* ReturnTable).  One action per metadata-store call, so every interleaving   *)
(* of the individual reads and writes of 2-3 nodes is explored.               *)
(* Time is abstracted: a lease is either "future" (unexpired for the whole    *)
(* behaviour) or "past" (already expired when written).                       *)
EXTENDS Integers, Sequences, FiniteSets, TLC, Json

CONSTANTS Nodes,        \* e.g. 1..3 (node ids)
          MaxCalls,     \* calls per node
          Record,       \* TRUE: keep the schedule in hist (for export); FALSE: hist stays empty
          Sample

None == [owner |-> 0, until |-> "none", ver |-> 0]
Kinds == {"LL", "LE", "RT"}       \* lease(long), lease(already expired duration), return

VARIABLES prog,     \* node -> sequence of call kinds
          rec,      \* the lease record in the store, or None
          idx,      \* last log index of the metadata shard
          pc,       \* node -> number of calls finished
          phase,    \* node -> "idle" | "write" (read done, decided to write)
          rd,       \* node -> record read by the current call
          ret,      \* node -> sequence of results of finished calls
          held,     \* GHOST: set of nodes holding an unexpired lease they have not returned
          hist      \* schedule: sequence of node ids (one per store call)
vars == <<prog, rec, idx, pc, phase, rd, ret, held, hist>>

Progs == UNION {[1..n -> Kinds] : n \in 0..MaxCalls}

Init == /\ prog \in [Nodes -> Progs]
        /\ rec = None /\ idx = 0
        /\ pc = [n \in Nodes |-> 0]
        /\ phase = [n \in Nodes |-> "idle"]
        /\ rd = [n \in Nodes |-> None]
        /\ ret = [n \in Nodes |-> <<>>]
        /\ held = {}
        /\ hist = <<>>

Cur(n) == prog[n][pc[n] + 1]
Active(n) == pc[n] < Len(prog[n])
Log(n) == hist' = IF Record THEN Append(hist, n) ELSE hist
Finish(n, r) == /\ pc' = [pc EXCEPT ![n] = @ + 1]
                /\ ret' = [ret EXCEPT ![n] = Append(@, r)]
                /\ phase' = [phase EXCEPT ![n] = "idle"]

\* store.Get(lease key) and the decision taken on what was read
Read(n) ==
  /\ Active(n) /\ phase[n] = "idle"
  /\ rd' = [rd EXCEPT ![n] = rec]
  /\ Log(n)
  /\ IF Cur(n) \in {"LL", "LE"}
     THEN IF rec = None \/ rec.owner = n \/ rec.until = "past"
          THEN phase' = [phase EXCEPT ![n] = "write"] /\ UNCHANGED <<pc, ret>>
          ELSE Finish(n, "notacquired")
     ELSE IF rec = None \/ rec.owner # n
          THEN Finish(n, "notmine")
          ELSE phase' = [phase EXCEPT ![n] = "write"] /\ UNCHANGED <<pc, ret>>
  /\ UNCHANGED <<prog, rec, idx, held>>

\* compare-and-set with the version that was read (0 when nothing was read: accepted only if still absent)
CasOK(n) == rec = None \/ rec.ver = rd[n].ver

Write(n) ==
  /\ Active(n) /\ phase[n] = "write"
  /\ Log(n)
  /\ idx' = idx + 1
  /\ IF ~CasOK(n)
     THEN /\ Finish(n, "mismatch") /\ UNCHANGED <<rec, held>>
     ELSE IF Cur(n) \in {"LL", "LE"}
          THEN /\ rec' = [owner |-> n, until |-> IF Cur(n) = "LL" THEN "future" ELSE "past", ver |-> idx + 1]
               /\ held' = IF Cur(n) = "LL" THEN (held \ {m \in Nodes : rec.owner = m}) \cup {n}
                          ELSE held \ {rec.owner, n}
               /\ Finish(n, "ok")
          ELSE /\ rec' = None
               /\ held' = held \ {rec.owner}
               /\ Finish(n, "returned")
  /\ UNCHANGED <<prog, rd>>

Next == \E n \in Nodes : Read(n) \/ Write(n)
Spec == Init /\ [][Next]_vars

(***************************************************************************)
(* C15                                                                     *)
(***************************************************************************)
AtMostOneHolder == Cardinality(held) <= 1
\* the record says who holds: a node in held owns the current, unexpired record
HolderOwnsRecord == \A n \in held : rec.owner = n /\ rec.until = "future"
\* a write replaces only: nothing, the writer's own record, or an expired one; a return removes only the caller's
GrantSafe ==
  [][\A n \in Nodes :
       (phase[n] = "write" /\ pc'[n] = pc[n] + 1 /\ ret'[n][Len(ret'[n])] \in {"ok", "returned"}) =>
          IF ret'[n][Len(ret'[n])] = "ok" THEN rec = None \/ rec.owner = n \/ rec.until = "past"
          ELSE rec = None \/ rec.owner = n]_vars     \* (deleting an already absent record removes nothing)

\* the inductive invariant of spec/proofs/LeaseU.tla (proved there with TLAPS for any set of nodes and any number of
\* calls), stated on this module's variables: TLC checks that it holds in every reachable state here as well
MayWrite(n, k, r) == IF k \in {"LL", "LE"} THEN r = None \/ r.owner = n \/ r.until = "past"
                     ELSE r # None /\ r.owner = n
IndInvL ==
  /\ rec.ver <= idx
  /\ \A n \in Nodes : rd[n].ver <= idx
  /\ \A n \in Nodes : (rd[n] # None /\ rec # None /\ rd[n].ver = rec.ver) => rd[n] = rec
  /\ \A n \in Nodes : phase[n] = "write" => MayWrite(n, Cur(n), rd[n])
  /\ held = IF rec.until = "future" THEN {rec.owner} ELSE {}

AllDone == \A n \in Nodes : ~Active(n)
Export == AllDone /\ Record /\ (Sample = 0 \/ RandomElement(1..Sample) = 1) =>
            PrintT("BEHAVIOUR " \o ToJson([prog |-> [n \in 1..Cardinality(Nodes) |-> prog[n]], sched |-> hist]))
=============================================================================
