------------------------------- MODULE Bytes -------------------------------
(* Byte strings as sequences over 0..255 and their lexicographic order      *)
(* (Go: bytes.Compare; Pebble's DefaultComparer).                           *)
EXTENDS Integers, Sequences, FiniteSets

MinI(a, b) == IF a < b THEN a ELSE b

\* first index where a and b differ, 0 if one is a prefix of the other
FirstDiff(a, b) ==
  LET n == MinI(Len(a), Len(b))
      d == {i \in 1..n : a[i] # b[i]}
  IN IF d = {} THEN 0 ELSE CHOOSE i \in d : \A j \in d : i <= j

Less(a, b) ==
  LET i == FirstDiff(a, b)
  IN IF i = 0 THEN Len(a) < Len(b) ELSE a[i] < b[i]

Leq(a, b) == a = b \/ Less(a, b)

\* bytes.Compare: -1, 0, 1
Cmp(a, b) == IF a = b THEN 0 ELSE IF Less(a, b) THEN -1 ELSE 1

IsPrefixOf(p, s) == Len(p) <= Len(s) /\ \A i \in 1..Len(p) : p[i] = s[i]

\* fsm.incrementRightmostByte: add one with carry, prepend 1 when everything overflows
RECURSIVE IncRightmost(_)
IncRightmost(s) ==
  IF s = <<>> THEN <<>>
  ELSE LET n == Len(s) IN
       IF s[n] < 255 THEN [s EXCEPT ![n] = s[n] + 1]
       ELSE IF n = 1 THEN <<1, 0>>
       ELSE LET r == IncRightmost(SubSeq(s, 1, n - 1)) IN
            \* carry went through the whole prefix: r is one longer and starts with 1
            r \o <<0>>

\* all byte strings over alphabet A with length 1..n
RECURSIVE StringsUpTo(_, _)
StringsUpTo(A, n) ==
  IF n = 0 THEN {<<>>}
  ELSE LET S == StringsUpTo(A, n - 1) IN
       S \cup {s \o <<a>> : s \in {x \in S : Len(x) = n - 1}, a \in A}

NonEmptyStrings(A, n) == StringsUpTo(A, n) \ {<<>>}
=============================================================================
