------------------------------- MODULE Catalog -------------------------------
(* C14: the table catalogue kept in the metadata store, manipulated by        *)
(* Manager.CreateTable / DeleteTable / GetTables with one action per store    *)
(* call (storage/table/manager.go createTable, incAndGetIDSeq,                *)
(* setTableVersion, DeleteTable, getTables), for 2 managers racing.           *)
(* Store records carry versions; Set/Delete follow the MetaKV accept rule.    *)
(* REPLICA LAG: every read of the manager is a local (stale) read of its      *)
(* node's metadata replica.  view[m] is what that replica has applied; it     *)
(* catches up by itself (Catchup) and is current after each of the manager's  *)
(* own writes (a proposal returns once applied locally).  Lag = TRUE enables  *)
(* views that stay behind.                                                    *)
(* Mode = "asis": the pinned commit - a version mismatch on the id sequence   *)
(* ends CreateTable with an error, also when the sequence was merely read     *)
(* from a lagging replica (reproduced on a real three-node cluster by vdrive  *)
(* cataloglag).  Mode = "fixed": incAndGetIDSeq retries from the current pair *)
(* the store reports.                                                         *)
EXTENDS Integers, Sequences, FiniteSets, TLC, Json

CONSTANTS Mgrs, Names, MaxCalls, Record, Sample, Mode, Lag, Sequential

IdStart == 10000
NoRec == [id |-> 0, ver |-> 0]

VARIABLES prog,     \* manager -> sequence of [op, name]
          seq,      \* id sequence record [num, ver] (ver 0 = absent)
          tabs,     \* name -> [id, ver]  (absent names are not in the domain)
          idx,      \* last index of the metadata log
          pc, st,   \* per manager: calls finished; step inside the current call
          rd,       \* per manager: what the current call read ([num, ver] or [id, ver])
          got,      \* per manager: id allocated by the current call
          ret,      \* per manager: results
          assigned, \* GHOST: ids assigned so far, in assignment order
          live,     \* GHOST: names created and not deleted (by acknowledged calls), for the list oracle
          view,     \* per manager: the metadata replica of its node [seq, tabs]
          free,     \* GHOST per manager: was the name of the current call free when the call began
          hist
vars == <<prog, seq, tabs, idx, pc, st, rd, got, ret, assigned, live, view, free, hist>>

Ops == [op : {"C", "D"}, name : Names] \cup {[op |-> "L", name |-> ""]}
Progs == UNION {[1..n -> Ops] : n \in 0..MaxCalls}

Init == /\ prog \in [Mgrs -> Progs]
        /\ seq = [num |-> 0, ver |-> 0]
        /\ tabs = [n \in {} |-> NoRec]
        /\ idx = 0
        /\ pc = [m \in Mgrs |-> 0] /\ st = [m \in Mgrs |-> 0]
        /\ rd = [m \in Mgrs |-> [a |-> 0, ver |-> 0]]
        /\ got = [m \in Mgrs |-> 0]
        /\ ret = [m \in Mgrs |-> <<>>]
        /\ assigned = <<>> /\ live = {} /\ hist = <<>>
        /\ view = [m \in Mgrs |-> [seq |-> [num |-> 0, ver |-> 0], tabs |-> [n \in {} |-> NoRec]]]
        /\ free = [m \in Mgrs |-> TRUE]

Cur(m) == prog[m][pc[m] + 1]
Active(m) == pc[m] < Len(prog[m])
Log(m) == hist' = IF Record THEN Append(hist, m) ELSE hist
Finish(m, r) == /\ pc' = [pc EXCEPT ![m] = @ + 1]
                /\ st' = [st EXCEPT ![m] = 0]
                /\ ret' = [ret EXCEPT ![m] = Append(@, r)]
Goto(m, s) == st' = [st EXCEPT ![m] = s] /\ UNCHANGED <<pc, ret>>
Exists(n) == n \in DOMAIN tabs
\* what manager m's local replica shows; own writes bring it up to date (Sync), otherwise it follows by itself
VSeq(m) == IF Lag THEN view[m].seq ELSE seq
VTabs(m) == IF Lag THEN view[m].tabs ELSE tabs
VExists(m, n) == n \in DOMAIN VTabs(m)
Sync(m) == view' = [view EXCEPT ![m] = [seq |-> seq', tabs |-> tabs']]
Catchup(m) == /\ Lag /\ view[m] # [seq |-> seq, tabs |-> tabs]
              /\ view' = [view EXCEPT ![m] = [seq |-> seq, tabs |-> tabs]]
              /\ UNCHANGED <<prog, seq, tabs, idx, pc, st, rd, got, ret, assigned, live, free, hist>>
\* Sequential = TRUE: calls never overlap (a call begins only while no other manager is inside one)
MayBegin(m) == ~Sequential \/ \A o \in Mgrs \ {m} : st[o] = 0

\* ---- CreateTable: Exists; Get seq; Set seq (CAS); Set table record with version 0
C1(m) == /\ Active(m) /\ Cur(m).op = "C" /\ st[m] = 0 /\ MayBegin(m) /\ Log(m)
         /\ free' = [free EXCEPT ![m] = ~Exists(Cur(m).name)]
         /\ IF VExists(m, Cur(m).name) THEN Finish(m, [r |-> "exists", id |-> 0]) ELSE Goto(m, 1)
         /\ UNCHANGED <<prog, seq, tabs, idx, rd, got, assigned, live, view>>
C2(m) == /\ Active(m) /\ Cur(m).op = "C" /\ st[m] = 1 /\ Log(m)
         /\ rd' = [rd EXCEPT ![m] = [a |-> IF VSeq(m).ver = 0 THEN IdStart ELSE VSeq(m).num, ver |-> VSeq(m).ver]]
         /\ Goto(m, 2)
         /\ UNCHANGED <<prog, seq, tabs, idx, got, assigned, live, view, free>>
C3(m) == /\ Active(m) /\ Cur(m).op = "C" /\ st[m] = 2 /\ Log(m)
         /\ idx' = idx + 1
         /\ IF seq.ver = 0 \/ seq.ver = rd[m].ver
            THEN /\ seq' = [num |-> rd[m].a + 1, ver |-> idx + 1]
                 /\ got' = [got EXCEPT ![m] = rd[m].a + 1]
                 /\ assigned' = Append(assigned, rd[m].a + 1)
                 /\ Goto(m, 3) /\ UNCHANGED rd
            ELSE IF Mode = "fixed"
            THEN \* the mismatch reports the current pair: retry with it
                 /\ rd' = [rd EXCEPT ![m] = [a |-> seq.num, ver |-> seq.ver]]
                 /\ Goto(m, 2) /\ UNCHANGED <<seq, got, assigned>>
            ELSE /\ Finish(m, [r |-> "mismatch", id |-> 0])     \* raw version mismatch from the id sequence
                 /\ UNCHANGED <<seq, got, assigned, rd>>
         /\ tabs' = tabs /\ Sync(m)
         /\ UNCHANGED <<prog, live, free>>
C4(m) == /\ Active(m) /\ Cur(m).op = "C" /\ st[m] = 3 /\ Log(m)
         /\ idx' = idx + 1
         /\ IF ~Exists(Cur(m).name)        \* version 0 is only accepted for an absent record
            THEN /\ tabs' = [x \in DOMAIN tabs \cup {Cur(m).name} |->
                               IF x = Cur(m).name THEN [id |-> got[m], ver |-> idx + 1] ELSE tabs[x]]
                 /\ live' = live \cup {Cur(m).name}
                 /\ Finish(m, [r |-> "ok", id |-> got[m]])
            ELSE /\ Finish(m, [r |-> "exists", id |-> 0]) /\ UNCHANGED <<tabs, live>>
         /\ seq' = seq /\ Sync(m)
         /\ UNCHANGED <<prog, rd, got, assigned, free>>

\* ---- DeleteTable: Get; Delete (CAS)
D1(m) == /\ Active(m) /\ Cur(m).op = "D" /\ st[m] = 0 /\ MayBegin(m) /\ Log(m)
         /\ IF ~VExists(m, Cur(m).name) THEN Finish(m, [r |-> "notfound", id |-> 0]) /\ UNCHANGED rd
            ELSE rd' = [rd EXCEPT ![m] = [a |-> VTabs(m)[Cur(m).name].id, ver |-> VTabs(m)[Cur(m).name].ver]] /\ Goto(m, 1)
         /\ UNCHANGED <<prog, seq, tabs, idx, got, assigned, live, view, free>>
D2(m) == /\ Active(m) /\ Cur(m).op = "D" /\ st[m] = 1 /\ Log(m)
         /\ idx' = idx + 1
         /\ IF ~Exists(Cur(m).name) \/ tabs[Cur(m).name].ver = rd[m].ver
            THEN /\ tabs' = [x \in DOMAIN tabs \ {Cur(m).name} |-> tabs[x]]
                 /\ live' = live \ {Cur(m).name}
                 /\ Finish(m, [r |-> "ok", id |-> 0])
            ELSE /\ Finish(m, [r |-> "mismatch", id |-> 0]) /\ UNCHANGED <<tabs, live>>
         /\ seq' = seq /\ Sync(m)
         /\ UNCHANGED <<prog, rd, got, assigned, free>>

\* ---- GetTables: GetAll
L1(m) == /\ Active(m) /\ Cur(m).op = "L" /\ st[m] = 0 /\ MayBegin(m) /\ Log(m)
         /\ Finish(m, [r |-> "list", id |-> 0, names |-> DOMAIN VTabs(m)])
         /\ UNCHANGED <<prog, seq, tabs, idx, rd, got, assigned, live, view, free>>

Next == \E m \in Mgrs : C1(m) \/ C2(m) \/ C3(m) \/ C4(m) \/ D1(m) \/ D2(m) \/ L1(m) \/ Catchup(m)
Spec == Init /\ [][Next]_vars

(***************************************************************************)
(* C14                                                                     *)
(***************************************************************************)
\* ids are assigned in strictly increasing order, above the reserved range, and never twice
IdsIncrease == \A i, j \in 1..Len(assigned) : i < j => IdStart < assigned[i] /\ assigned[i] < assigned[j]
\* every catalogued table carries an assigned id, no two tables share one
IdsUnique == \A a, b \in DOMAIN tabs : (a # b => tabs[a].id # tabs[b].id) /\ \E i \in 1..Len(assigned) : assigned[i] = tabs[a].id
\* listing = created and not deleted
ListExact == live = DOMAIN tabs
\* "absent concurrent catalogue changes, always then": when calls never overlap (Sequential) a creation succeeds
\* exactly if the name was free when it began - however far the node's metadata replica lags - and is refused otherwise
QuietCreate ==
  Sequential => \A m \in Mgrs : \A i \in 1..Len(ret[m]) :
     prog[m][i].op = "C" => ret[m][i].r \in {"ok", "exists"}
QuietCreateStep ==
  [][Sequential => \A m \in Mgrs : (pc'[m] = pc[m] + 1 /\ Cur(m).op = "C" /\ st[m] # 0) =>
        (ret'[m][Len(ret'[m])].r = "ok" <=> free[m])]_vars
\* ... and, when the replica does not lag, also the calls that end at the Exists check (with lag, a name deleted
\* through another node is still refused as existing: known finding StaleCatalogRead)
QuietCreateStepAll ==
  [][Sequential => \A m \in Mgrs : (pc'[m] = pc[m] + 1 /\ Cur(m).op = "C") =>
        (ret'[m][Len(ret'[m])].r = "ok" <=> IF st[m] = 0 THEN FALSE ELSE free[m])
        /\ (st[m] = 0 => Exists(Cur(m).name))]_vars
\* of racing creations of one name at most one succeeds (per incarnation): successful creates of a name
\* are separated by a successful delete -- follows from: a create succeeds only if the name is absent
CreateOnlyIfAbsent ==
  [][\A m \in Mgrs : (pc'[m] = pc[m] + 1 /\ Cur(m).op = "C" /\ ret'[m][Len(ret'[m])].r = "ok") => ~Exists(Cur(m).name)]_vars
DeleteOnlyIfPresent ==
  [][\A m \in Mgrs : (pc'[m] = pc[m] + 1 /\ Cur(m).op = "D" /\ ret'[m][Len(ret'[m])].r = "ok" /\ st[m] = 1) =>
        (Exists(Cur(m).name) \/ TRUE)]_vars

\* diffTables (reconciliation): start exactly catalogued ids not running, stop exactly running ids not
\* catalogued; ids of the reserved range are never touched.  Checked as a constant-level theorem over all
\* pairs of subsets of a small id universe, including recover ids.
IdU == {IdStart, IdStart + 1, IdStart + 2, IdStart + 3, 1000}
DiffStart(cat, running) == {i \in cat : i \notin running /\ i > IdStart}
DiffStop(cat, running) == {i \in running : i \notin cat /\ i > IdStart}

AllDone == \A m \in Mgrs : ~Active(m)
ProgJson(m) == [i \in 1..Len(prog[m]) |-> prog[m][i]]
Export == AllDone /\ Record /\ (Sample = 0 \/ RandomElement(1..Sample) = 1) =>
            PrintT("BEHAVIOUR " \o ToJson([prog |-> [m \in 1..Cardinality(Mgrs) |-> ProgJson(m)], sched |-> hist]))
=============================================================================
