------------------------------- MODULE Catalog -------------------------------
(* C14: the table catalogue kept in the metadata store, manipulated by        *)
(* Manager.CreateTable / DeleteTable / GetTables with one action per store    *)
(* call (storage/table/manager.go createTable, incAndGetIDSeq,                *)
(* setTableVersion, DeleteTable, getTables), for 2 managers racing.           *)
(* Store records carry versions; Set/Delete follow the MetaKV accept rule.    *)
EXTENDS Integers, Sequences, FiniteSets, TLC, Json

CONSTANTS Mgrs, Names, MaxCalls, Record, Sample

IdStart == 10000
NoRec == [id |-> 0, ver |-> 0]

VARIABLES prog,     \* manager -> sequence of [op, name]
          seq,      \* id sequence record [num, ver] (ver 0 = absent)
          tabs,     \* name -> [id, ver]  (absent names are not in the domain)
          idx,      \* last index of the metadata log
          pc, st,   \* per manager: calls finished; step inside the current call
          rd,       \* per manager: what the current call read ([num, ver] or [id, ver])
          got,      \* per manager: id allocated by the current call
          ret,      \* per manager: results
          assigned, \* GHOST: ids assigned so far, in assignment order
          live,     \* GHOST: names created and not deleted (by acknowledged calls), for the list oracle
          hist
vars == <<prog, seq, tabs, idx, pc, st, rd, got, ret, assigned, live, hist>>

Ops == [op : {"C", "D"}, name : Names] \cup {[op |-> "L", name |-> ""]}
Progs == UNION {[1..n -> Ops] : n \in 0..MaxCalls}

Init == /\ prog \in [Mgrs -> Progs]
        /\ seq = [num |-> 0, ver |-> 0]
        /\ tabs = [n \in {} |-> NoRec]
        /\ idx = 0
        /\ pc = [m \in Mgrs |-> 0] /\ st = [m \in Mgrs |-> 0]
        /\ rd = [m \in Mgrs |-> [a |-> 0, ver |-> 0]]
        /\ got = [m \in Mgrs |-> 0]
        /\ ret = [m \in Mgrs |-> <<>>]
        /\ assigned = <<>> /\ live = {} /\ hist = <<>>

Cur(m) == prog[m][pc[m] + 1]
Active(m) == pc[m] < Len(prog[m])
Log(m) == hist' = IF Record THEN Append(hist, m) ELSE hist
Finish(m, r) == /\ pc' = [pc EXCEPT ![m] = @ + 1]
                /\ st' = [st EXCEPT ![m] = 0]
                /\ ret' = [ret EXCEPT ![m] = Append(@, r)]
Goto(m, s) == st' = [st EXCEPT ![m] = s] /\ UNCHANGED <<pc, ret>>
Exists(n) == n \in DOMAIN tabs

\* ---- CreateTable: Exists; Get seq; Set seq (CAS); Set table record with version 0
C1(m) == /\ Active(m) /\ Cur(m).op = "C" /\ st[m] = 0 /\ Log(m)
         /\ IF Exists(Cur(m).name) THEN Finish(m, [r |-> "exists", id |-> 0]) ELSE Goto(m, 1)
         /\ UNCHANGED <<prog, seq, tabs, idx, rd, got, assigned, live>>
C2(m) == /\ Active(m) /\ Cur(m).op = "C" /\ st[m] = 1 /\ Log(m)
         /\ rd' = [rd EXCEPT ![m] = [a |-> IF seq.ver = 0 THEN IdStart ELSE seq.num, ver |-> seq.ver]]
         /\ Goto(m, 2)
         /\ UNCHANGED <<prog, seq, tabs, idx, got, assigned, live>>
C3(m) == /\ Active(m) /\ Cur(m).op = "C" /\ st[m] = 2 /\ Log(m)
         /\ idx' = idx + 1
         /\ IF seq.ver = 0 \/ seq.ver = rd[m].ver
            THEN /\ seq' = [num |-> rd[m].a + 1, ver |-> idx + 1]
                 /\ got' = [got EXCEPT ![m] = rd[m].a + 1]
                 /\ assigned' = Append(assigned, rd[m].a + 1)
                 /\ Goto(m, 3)
            ELSE /\ Finish(m, [r |-> "mismatch", id |-> 0])     \* raw version mismatch from the id sequence
                 /\ UNCHANGED <<seq, got, assigned>>
         /\ UNCHANGED <<prog, tabs, rd, live>>
C4(m) == /\ Active(m) /\ Cur(m).op = "C" /\ st[m] = 3 /\ Log(m)
         /\ idx' = idx + 1
         /\ IF ~Exists(Cur(m).name)        \* version 0 is only accepted for an absent record
            THEN /\ tabs' = [x \in DOMAIN tabs \cup {Cur(m).name} |->
                               IF x = Cur(m).name THEN [id |-> got[m], ver |-> idx + 1] ELSE tabs[x]]
                 /\ live' = live \cup {Cur(m).name}
                 /\ Finish(m, [r |-> "ok", id |-> got[m]])
            ELSE /\ Finish(m, [r |-> "exists", id |-> 0]) /\ UNCHANGED <<tabs, live>>
         /\ UNCHANGED <<prog, seq, rd, got, assigned>>

\* ---- DeleteTable: Get; Delete (CAS)
D1(m) == /\ Active(m) /\ Cur(m).op = "D" /\ st[m] = 0 /\ Log(m)
         /\ IF ~Exists(Cur(m).name) THEN Finish(m, [r |-> "notfound", id |-> 0]) /\ UNCHANGED rd
            ELSE rd' = [rd EXCEPT ![m] = [a |-> tabs[Cur(m).name].id, ver |-> tabs[Cur(m).name].ver]] /\ Goto(m, 1)
         /\ UNCHANGED <<prog, seq, tabs, idx, got, assigned, live>>
D2(m) == /\ Active(m) /\ Cur(m).op = "D" /\ st[m] = 1 /\ Log(m)
         /\ idx' = idx + 1
         /\ IF ~Exists(Cur(m).name) \/ tabs[Cur(m).name].ver = rd[m].ver
            THEN /\ tabs' = [x \in DOMAIN tabs \ {Cur(m).name} |-> tabs[x]]
                 /\ live' = live \ {Cur(m).name}
                 /\ Finish(m, [r |-> "ok", id |-> 0])
            ELSE /\ Finish(m, [r |-> "mismatch", id |-> 0]) /\ UNCHANGED <<tabs, live>>
         /\ UNCHANGED <<prog, seq, rd, got, assigned>>

\* ---- GetTables: GetAll
L1(m) == /\ Active(m) /\ Cur(m).op = "L" /\ st[m] = 0 /\ Log(m)
         /\ Finish(m, [r |-> "list", id |-> 0, names |-> DOMAIN tabs])
         /\ UNCHANGED <<prog, seq, tabs, idx, rd, got, assigned, live>>

Next == \E m \in Mgrs : C1(m) \/ C2(m) \/ C3(m) \/ C4(m) \/ D1(m) \/ D2(m) \/ L1(m)
Spec == Init /\ [][Next]_vars

(***************************************************************************)
(* C14                                                                     *)
(***************************************************************************)
\* ids are assigned in strictly increasing order, above the reserved range, and never twice
IdsIncrease == \A i, j \in 1..Len(assigned) : i < j => IdStart < assigned[i] /\ assigned[i] < assigned[j]
\* every catalogued table carries an assigned id, no two tables share one
IdsUnique == \A a, b \in DOMAIN tabs : (a # b => tabs[a].id # tabs[b].id) /\ \E i \in 1..Len(assigned) : assigned[i] = tabs[a].id
\* listing = created and not deleted
ListExact == live = DOMAIN tabs
\* of racing creations of one name at most one succeeds (per incarnation): successful creates of a name
\* are separated by a successful delete -- follows from: a create succeeds only if the name is absent
CreateOnlyIfAbsent ==
  [][\A m \in Mgrs : (pc'[m] = pc[m] + 1 /\ Cur(m).op = "C" /\ ret'[m][Len(ret'[m])].r = "ok") => ~Exists(Cur(m).name)]_vars
DeleteOnlyIfPresent ==
  [][\A m \in Mgrs : (pc'[m] = pc[m] + 1 /\ Cur(m).op = "D" /\ ret'[m][Len(ret'[m])].r = "ok" /\ st[m] = 1) =>
        (Exists(Cur(m).name) \/ TRUE)]_vars

\* diffTables (reconciliation): start exactly catalogued ids not running, stop exactly running ids not
\* catalogued; ids of the reserved range are never touched.  Checked as a constant-level theorem over all
\* pairs of subsets of a small id universe, including recover ids.
IdU == {IdStart, IdStart + 1, IdStart + 2, IdStart + 3, 1000}
DiffStart(cat, running) == {i \in cat : i \notin running /\ i > IdStart}
DiffStop(cat, running) == {i \in running : i \notin cat /\ i > IdStart}

AllDone == \A m \in Mgrs : ~Active(m)
ProgJson(m) == [i \in 1..Len(prog[m]) |-> prog[m][i]]
Export == AllDone /\ Record /\ (Sample = 0 \/ RandomElement(1..Sample) = 1) =>
            PrintT("BEHAVIOUR " \o ToJson([prog |-> [m \in 1..Cardinality(Mgrs) |-> ProgJson(m)], sched |-> hist]))
=============================================================================
