-------------------------------- MODULE Group --------------------------------
(* C10: one table's Raft group as dragonboat presents it to regatta           *)
(* (storage/table/table.go proposeTable / readTable / Txn, fsm.Update result  *)
(* payload): a committed log, replicas that apply it with arbitrary lag,      *)
(* proposals acknowledged to clients with a revision taken from the apply     *)
(* result, reads either through ReadIndex (linearizable) or on the local      *)
(* replica (serializable).  Commands are abstract: w = write with responses,  *)
(* e = transaction whose executed branch is empty (no responses).             *)
(* Mode "asis": Result.Data (which carries the revision) only when the        *)
(* command produced responses; "fixed": always for transactions.              *)
EXTENDS Integers, Sequences, FiniteSets, TLC

CONSTANTS Replicas, Clients, MaxLog, MaxReads, Mode

VARIABLES log,        \* committed log: sequence of [c (client), kind ("w" | "e")]
          applied,    \* replica -> applied index
          res,        \* replica -> sequence of apply results (revision reported for entry i)
          call,       \* client -> [st: "idle" | "proposed" | "reading" | "done", kind, pos, node, lin, readIdx, ackedAtStart]
          acks,       \* sequence of acknowledged writes [pos, rev] in acknowledgement order
          reads       \* sequence of completed reads [lin, saw (log prefix length), ackedAtStart (max acked position when invoked)]
vars == <<log, applied, res, call, acks, reads>>

Idle == [st |-> "idle", kind |-> "", pos |-> 0, node |-> 0, lin |-> FALSE, readIdx |-> 0, ackedAtStart |-> 0]
Init == /\ log = <<>> /\ applied = [r \in Replicas |-> 0] /\ res = [r \in Replicas |-> <<>>]
        /\ call = [c \in Clients |-> Idle] /\ acks = <<>> /\ reads = <<>>

MaxAcked == IF acks = <<>> THEN 0 ELSE LET S == {acks[i].pos : i \in 1..Len(acks)} IN CHOOSE m \in S : \A x \in S : x <= m

\* SyncPropose: the entry is committed at the next log position
Propose(c, kind, n) ==
  /\ call[c].st = "idle" /\ Len(log) < MaxLog
  /\ log' = Append(log, [c |-> c, kind |-> kind])
  /\ call' = [call EXCEPT ![c] = [Idle EXCEPT !.st = "proposed", !.kind = kind, !.pos = Len(log) + 1, !.node = n]]
  /\ UNCHANGED <<applied, res, acks, reads>>

\* a replica applies the next entry; the revision travels in Result.Data
RevOf(i) == IF Mode = "asis" /\ log[i].kind = "e" THEN 0 ELSE i
Apply(r) ==
  /\ applied[r] < Len(log)
  /\ applied' = [applied EXCEPT ![r] = @ + 1]
  /\ res' = [res EXCEPT ![r] = Append(@, RevOf(applied[r] + 1))]
  /\ UNCHANGED <<log, call, acks, reads>>

\* the proposing node answers its client once it has applied the entry
Ack(c) ==
  /\ call[c].st = "proposed" /\ applied[call[c].node] >= call[c].pos
  /\ acks' = Append(acks, [pos |-> call[c].pos, rev |-> res[call[c].node][call[c].pos]])
  /\ call' = [call EXCEPT ![c] = Idle]
  /\ UNCHANGED <<log, applied, res, reads>>

\* a read is invoked on node n; linearizable reads (and read-only transactions) take a read index first
StartRead(c, n, lin) ==
  /\ call[c].st = "idle"
  /\ call' = [call EXCEPT ![c] = [Idle EXCEPT !.st = "reading", !.node = n, !.lin = lin,
                                              !.readIdx = IF lin THEN Len(log) ELSE 0, !.ackedAtStart = MaxAcked]]
  /\ UNCHANGED <<log, applied, res, acks, reads>>
\* ... and is served from the local replica once it has applied the read index
FinishRead(c) ==
  /\ call[c].st = "reading" /\ applied[call[c].node] >= call[c].readIdx
  /\ reads' = Append(reads, [lin |-> call[c].lin, saw |-> applied[call[c].node], ackedAtStart |-> call[c].ackedAtStart])
  /\ call' = [call EXCEPT ![c] = Idle]
  /\ UNCHANGED <<log, applied, res, acks>>

Next == \/ \E c \in Clients, k \in {"w", "e"}, n \in Replicas : Propose(c, k, n)
        \/ \E r \in Replicas : Apply(r)
        \/ \E c \in Clients : Ack(c) \/ FinishRead(c)
        \/ \E c \in Clients, n \in Replicas, lin \in BOOLEAN : StartRead(c, n, lin)
Spec == Init /\ [][Next]_vars

Bound == Len(acks) <= MaxLog /\ Len(reads) <= MaxReads

(***************************************************************************)
(* C10                                                                     *)
(***************************************************************************)
\* every acknowledged mutation reports a non-zero revision equal to its position in the log
RevisionIsPosition == \A i \in 1..Len(acks) : acks[i].rev # 0 /\ acks[i].rev = acks[i].pos
\* replicas report identical results for every entry
ResultsAgree == \A r, s \in Replicas : \A i \in 1..Len(res[r]) : i <= Len(res[s]) => res[r][i] = res[s][i]
\* a linearizable read reflects every write acknowledged before it started, even on a lagging replica
LinearizableSeesAcked == \A i \in 1..Len(reads) : reads[i].lin => reads[i].saw >= reads[i].ackedAtStart
\* any read sees a prefix of the log: a state that existed
ReadsSeePrefix == \A i \in 1..Len(reads) : reads[i].saw \in 0..Len(log)
=============================================================================
