------------------------------- MODULE MetaKV -------------------------------
(* The cluster-internal metadata store (storage/kv): a map from path keys to  *)
(* (value, version), updated through a replicated log by LFSM.Update with a   *)
(* compare-and-set rule, and its lookups.  Keys are sequences of path         *)
(* segments (<<"tables","a","lease">> = "/tables/a/lease").                   *)
EXTENDS Integers, Sequences, FiniteSets

EmptyStore == [k \in {} |-> [val |-> "", ver |-> 0]]

Has(s, k) == k \in DOMAIN s

\* accept rule of LFSM.Update: an EXISTING key only with its current version; an absent key always
Accepts(s, k, ver) == ~Has(s, k) \/ s[k].ver = ver

SetKey(s, k, val, ver) == [x \in DOMAIN s \cup {k} |-> IF x = k THEN [val |-> val, ver |-> ver] ELSE s[x]]
DelKey(s, k) == [x \in DOMAIN s \ {k} |-> s[x]]

(***************************************************************************)
(* One log entry e = [i, op, k, val, ver].  Result: code 1 success with    *)
(* the written pair (version = log index), code 2 version mismatch with    *)
(* the CURRENT pair.                                                       *)
(***************************************************************************)
ApplyOne(s, e) ==
  IF ~Accepts(s, e.k, e.ver)
  THEN [s |-> s, res |-> [code |-> 2, k |-> e.k, val |-> s[e.k].val, ver |-> s[e.k].ver]]
  ELSE [s |-> IF e.op = "set" THEN SetKey(s, e.k, e.val, e.i) ELSE DelKey(s, e.k),
        res |-> [code |-> 1, k |-> e.k, val |-> e.val, ver |-> e.i]]

\* LFSM.Update: the entries of one apply batch, in order, each seeing the effects of the earlier ones
RECURSIVE ApplyBatch(_, _)
ApplyBatch(s, es) ==
  IF es = <<>> THEN [s |-> s, res |-> <<>>]
  ELSE LET h == ApplyOne(s, Head(es))
           t == ApplyBatch(h.s, Tail(es))
       IN [s |-> t.s, res |-> <<h.res>> \o t.res]

(***************************************************************************)
(* Lookups                                                                 *)
(***************************************************************************)
\* path.Match with '*' = exactly one segment (the only form the callers use)
GlobMatch(pat, k) == Len(pat) = Len(k) /\ \A i \in 1..Len(k) : pat[i] = "*" \/ pat[i] = k[i]
GetAll(s, pat) == {k \in DOMAIN s : GlobMatch(pat, k)}

IsUnder(k, p) == Len(k) > Len(p) /\ SubSeq(k, 1, Len(p)) = p
\* List(path): first segment below path of every key under it, plus the base name if path itself is a key
List(s, p) == {k[Len(p) + 1] : k \in {x \in DOMAIN s : IsUnder(x, p)}} \cup (IF Has(s, p) /\ p # <<>> THEN {p[Len(p)]} ELSE {})
\* ListDir(path): immediate sub-DIRECTORIES (segments that have something below them)
ListDir(s, p) == {k[Len(p) + 1] : k \in {x \in DOMAIN s : IsUnder(x, p) /\ Len(x) > Len(p) + 1}}

MaxVer(s) == IF DOMAIN s = {} THEN 0 ELSE CHOOSE m \in {s[k].ver : k \in DOMAIN s} : \A k \in DOMAIN s : s[k].ver <= m
=============================================================================
