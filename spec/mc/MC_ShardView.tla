---------------------------- MODULE MC_ShardView ----------------------------
(* Two nodes receive shard updates from a Raft-consistent universe (one       *)
(* leader per term, one membership per config-change index) in every order,   *)
(* with duplicates, in batches, and exchange state by gossip.                 *)
EXTENDS ShardView, TLC, Json

CONSTANTS MaxTerm, MaxCC, MaxSteps, Record, Sample

LeaderOf(t) == IF t % 2 = 1 THEN 1 ELSE 2
Universe == {[cc |-> c, reps |-> c, leader |-> l, term |-> t] :
               c \in 0..MaxCC, t \in 0..MaxTerm, l \in {NoLeader, 1, 2}}
Updates == {u \in Universe : (u.leader # NoLeader => u.term > 0 /\ u.leader = LeaderOf(u.term))}

Nodes == {1, 2}
VARIABLES view, delivered, steps, hist
vars == <<view, delivered, steps, hist>>

Init == view = [n \in Nodes |-> Empty] /\ delivered = [n \in Nodes |-> {}] /\ steps = 0 /\ hist = <<>>

RECURSIVE MergeAll(_, _)
MergeAll(v, us) == IF us = <<>> THEN v ELSE MergeAll(Merge(v, Head(us)), Tail(us))

Batches == {<<u>> : u \in Updates} \cup {<<u, w>> : u \in Updates, w \in Updates}

Deliver(n, b) ==
  /\ steps < MaxSteps
  /\ view' = [view EXCEPT ![n] = MergeAll(@, b)]
  /\ delivered' = [delivered EXCEPT ![n] = @ \cup {b[i] : i \in 1..Len(b)}]
  /\ steps' = steps + 1
  /\ hist' = IF Record THEN Append(hist, [t |-> "d", n |-> n, ups |-> b]) ELSE hist

\* push-pull: the whole view of node a is merged into node b as one update
Gossip(a, b) ==
  /\ steps < MaxSteps /\ a # b
  /\ view' = [view EXCEPT ![b] = Merge(@, view[a])]
  /\ delivered' = [delivered EXCEPT ![b] = @ \cup delivered[a]]
  /\ steps' = steps + 1
  /\ hist' = IF Record THEN Append(hist, [t |-> "g", n |-> a, to |-> b]) ELSE hist

Next == (\E n \in Nodes, b \in Batches : Deliver(n, b)) \/ (\E a, b \in Nodes : Gossip(a, b))
Spec == Init /\ [][Next]_vars

ViewIsJoin == \A n \in Nodes : view[n] = Join(delivered[n])
\* the relational characterisation of the join used in the unbounded TLAPS proof (spec/proofs/ShardViewU.tla), with
\* this module's universe (membership of config-change index c is c, leader of term t is LeaderOf(t)): it must agree
\* with the CHOOSE-based Join above in every reachable state
IsJoinMC(v, S) ==
  /\ v.cc = 0 \/ \E u \in S : u.cc = v.cc
  /\ \A u \in S : u.cc <= v.cc
  /\ v.reps = v.cc
  /\ (v.leader = NoLeader) <=> (\A u \in S : u.leader = NoLeader)
  /\ v.leader = NoLeader => v.term = 0
  /\ v.leader # NoLeader => /\ v.term > 0 /\ v.leader = LeaderOf(v.term)
                            /\ \E u \in S : u.leader # NoLeader /\ u.term = v.term
                            /\ \A u \in S : u.leader # NoLeader => u.term <= v.term
JoinAgrees == \A n \in Nodes : IsJoinMC(view[n], delivered[n]) /\ IsJoinMC(Join(delivered[n]), delivered[n])
TermMonotone == [][\A n \in Nodes : view'[n].term >= view[n].term /\ view'[n].cc >= view[n].cc]_vars
\* an update with no leader or an older term never replaces a newer leader
LeaderKept == [][\A n \in Nodes : view[n].leader # NoLeader => view'[n].leader # NoLeader
                                  /\ (view'[n].leader # view[n].leader => view'[n].term > view[n].term)]_vars

Export == steps = MaxSteps /\ Record /\ (Sample = 0 \/ RandomElement(1..Sample) = 1) =>
            PrintT("BEHAVIOUR " \o ToJson([steps |-> hist]))
=============================================================================
