SPECIFICATION Spec
CONSTANTS
  Waiters = {1, 2, 3, 4, 5, 6, 7}
  Tables = {"t", "u"}
  Revs = {0, 1, 2, 3, 4, 5}
  MaxSteps = 18
  SweepMode = "fixed"
  Record = TRUE
  Sample = 1
INVARIANTS NeverWedged Export
CHECK_DEADLOCK FALSE
