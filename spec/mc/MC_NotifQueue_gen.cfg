SPECIFICATION Spec
CONSTANTS
  Waiters = {1, 2, 3, 4, 5}
  Tables = {"t", "u"}
  Revs = {0, 1, 2}
  MaxSteps = 12
  SweepMode = "fixed"
  Record = TRUE
  Sample = 1
INVARIANTS NeverWedged Export
CHECK_DEADLOCK FALSE
