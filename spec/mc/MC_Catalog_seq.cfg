SPECIFICATION Spec
CONSTANTS
  Mgrs = {1, 2}
  Names = {"a", "b"}
  MaxCalls = 2
  Record = FALSE
  Mode = "fixed"
  Lag = FALSE
  Sequential = TRUE
  Sample = 0
INVARIANTS IdsIncrease IdsUnique ListExact
PROPERTIES CreateOnlyIfAbsent QuietCreateStepAll
CHECK_DEADLOCK FALSE
