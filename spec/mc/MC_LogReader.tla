---------------------------- MODULE MC_LogReader ----------------------------
EXTENDS LogReader

CONSTANTS Cached, MaxSteps

Next ==
  /\ Len(hist) < MaxSteps \/ ~Record
  /\ \/ \E s0 \in Sizes, now \in BOOLEAN : AppendEntry(s0, now)
     \/ ApplyOne
     \/ \E k \in 1..MaxLog : Compact(k)
     \/ \E s \in Sessions, first \in 1..(MaxLog + 1) : Start(s, first)
     \/ \E s \in Sessions : Step(s, Cached)
Spec == Init /\ [][Next]_vars

RECURSIVE Cat(_)
Cat(msgs) == IF msgs = <<>> THEN <<>> ELSE (IF Head(msgs).kind = "CMDS" THEN Head(msgs).idx ELSE <<>>) \o Cat(Tail(msgs))
Kinds(s) == {out[s][i].kind : i \in 1..Len(out[s])}

\* exactly the log entries with consecutive indices starting at the requested index, none beyond applied at call time
StreamExact == \A s \in Sessions : LET c == Cat(out[s]) IN
                 /\ c = Range(ses[s].req, ses[s].req + Len(c))
                 /\ ses[s].req + Len(c) <= ses[s].L \/ c = <<>>
                 /\ \A i \in 1..Len(out[s]) : out[s][i].kind = "CMDS" => out[s][i].idx # <<>>
\* the three special answers
UseSnapshotOnlyIfCompacted == \A s \in Sessions : "USE_SNAPSHOT" \in Kinds(s) => ses[s].f <= m
LeaderBehindOnlyIfBeyond == \A s \in Sessions : "LEADER_BEHIND" \in Kinds(s) => ses[s].req > ses[s].L
\* an empty batch ends the stream only when everything up to the applied index of the call has been sent:
\* a non-empty requested range always yields at least one entry
EmptyOnlyAtEnd == \A s \in Sessions : "EMPTY" \in Kinds(s) => ses[s].req + Len(Cat(out[s])) = ses[s].L
EmptyCarriesApplied == \A s \in Sessions : \A i \in 1..Len(out[s]) : out[s][i].kind = "EMPTY" => out[s][i].li >= ses[s].L - 1
\* the cache is an ascending run without holes of existing entries
CacheOK == /\ \A j \in 1..Len(buf) : buf[j] > m /\ buf[j] <= a
           /\ \A j \in 2..Len(buf) : buf[j] = buf[j - 1] + 1
           /\ Len(buf) <= CacheSize
\* the cache never changes the answer (apart from where the size limit cuts it); both yield at least one entry
IsPrefix(p, q) == Len(p) <= Len(q) /\ SubSeq(q, 1, Len(p)) = p
CacheTransparent ==
  \A f \in (m + 1)..a :
     LET r == [f |-> f, l |-> a + 1]
         c == QueryCached(r, MaxSize)
         p == QuerySimple(r, MaxSize) IN
     /\ c.err = p.err
     /\ (IsPrefix(c.ents, p.ents) \/ IsPrefix(p.ents, c.ents))
     /\ c.ents # <<>> /\ p.ents # <<>>
     /\ c.ents = Range(f, f + Len(c.ents))

\* adversarial generation: in Mode = "asis" the model of the pinned commit violates the property; every
\* violating behaviour is handed to the replay driver (the repaired code must not follow the model there)
ExportBad == ~(StreamExact /\ EmptyOnlyAtEnd /\ CacheTransparent) /\ Record =>
               PrintT("BEHAVIOUR " \o ToJson([steps |-> hist, cache |-> CacheSize, max |-> MaxSize]))
HistBound == Len(hist) <= MaxSteps

Export == Len(hist) = MaxSteps /\ Record /\ (Sample = 0 \/ RandomElement(1..Sample) = 1) =>
            PrintT("BEHAVIOUR " \o ToJson([steps |-> hist, cache |-> CacheSize, max |-> MaxSize]))
=============================================================================
