SPECIFICATION Spec
CONSTANTS
  Mode = "fixed"
  DefaultLimit = 4
  MaxRecords = 5
  MaxThreshold = 8
  Record = FALSE
INVARIANTS PairsExact IndexDeclared
CHECK_DEADLOCK FALSE
