SPECIFICATION Fair
CONSTANTS
  MaxLog = 6
  MsgLimit = 3
  PropLimit = 2
  MaxRestarts = 2
  MaxTimeouts = 3
  Mode = "fixed"
INVARIANTS ExactlyOnceInOrder
PROPERTIES IndexMonotone Converges
CHECK_DEADLOCK FALSE
