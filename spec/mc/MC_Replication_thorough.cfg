SPECIFICATION Fair
CONSTANTS
  MaxLog = 5
  MsgLimit = 3
  PropLimit = 2
  MaxRestarts = 1
  Deviations = {}
INVARIANTS ExactlyOnceInOrder
PROPERTIES IndexMonotone Converges
CHECK_DEADLOCK FALSE
