SPECIFICATION Spec
CONSTANTS
  LogLen = 3
  NRep = 2
  Sample = 0
  NKeys = 2
INVARIANTS RefinesLog Converged CasRule VersionsGrow StoreVersOK Export
CHECK_DEADLOCK FALSE
