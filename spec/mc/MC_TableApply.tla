--------------------------- MODULE MC_TableApply ---------------------------
(* Bounded exhaustive check that TableApply (implementation shaped) refines  *)
(* Table (abstract) - C01, C02, C03, C09, C12 at design level.               *)
(* Universe: keys over {0,97,255} with prefix pairs, MaxKeyLen = 2 so that   *)
(* WildBound really is "first key of the next key type".                     *)
EXTENDS TableApply, TLC, Json

CONSTANTS NKeys,        \* how many of the 6 representative keys are used
          Depth,        \* number of apply batches explored
          Pairs,        \* TRUE: also two-entry apply batches (in-batch reads see earlier writes)
          Sample,       \* 0: print nothing; n: print about every n-th transition as JSON for replay on the real FSM
          Alphabet      \* "all" | "writes" (puts and deletes only: cheap way to reach every content)

AllKeys == << <<97>>, <<97, 0>>, <<255, 255>>, <<0>>, <<255>>, <<0, 255>> >>
Keys == {AllKeys[i] : i \in 1..NKeys}
K2   == {AllKeys[1], AllKeys[2]}
Vals == {<<>>, <<1>>}

TopEnds(k) == {NoEnd, Wild, <<>>, k, k \o <<0>>} \cup Keys
OpEnds(k)  == {NoEnd, Wild, k \o <<0>>} \cup K2

Puts == {[t |-> "PUT", k |-> k, v |-> v, prev |-> p] : k \in Keys, v \in Vals, p \in BOOLEAN}
Dels == {[t |-> "DEL", k |-> k, end |-> e, prev |-> p, count |-> c] :
           k \in Keys, e \in UNION {TopEnds(x) : x \in Keys}, p \in BOOLEAN, c \in BOOLEAN}
PutBs == {[t |-> "PUTB", kvs |-> s] : s \in {<<>>} \cup
            {<<[k |-> a, v |-> v1], [k |-> b, v |-> v2]>> : a \in K2, b \in K2, v1 \in Vals, v2 \in Vals}}
DelBs == {[t |-> "DELB", ks |-> s] : s \in {<<>>} \cup {<<a>> : a \in K2} \cup {<<a, b>> : a \in K2, b \in Keys}}

RangeOps == {[t |-> "range", k |-> k, end |-> e, limit |-> l, keysOnly |-> f = 1, countOnly |-> f = 2] :
               k \in K2, e \in UNION {OpEnds(x) : x \in K2}, l \in {0, 1}, f \in {0, 1, 2}}
PutOps == {[t |-> "put", k |-> k, v |-> v, prev |-> p] : k \in K2, v \in Vals, p \in BOOLEAN}
DelOps == {[t |-> "del", k |-> k, end |-> e, prev |-> p, count |-> c] :
             k \in K2, e \in {NoEnd, Wild}, p \in BOOLEAN, c \in BOOLEAN}
NoneOp == [t |-> "none"]
TxnOps == RangeOps \cup PutOps \cup DelOps \cup {NoneOp}
WriteOps == {o \in PutOps \cup DelOps : ~o.prev}

Cmps == {[k |-> k, end |-> e, res |-> r, hasVal |-> h, val |-> <<1>>] :
           k \in K2, e \in {NoEnd, Wild, AllKeys[2]}, r \in {"EQUAL", "NOT_EQUAL", "GREATER", "LESS"}, h \in BOOLEAN}
CmpLists == {<<>>} \cup {<<c>> : c \in Cmps} \cup
            {<<c, d>> : c \in {x \in Cmps : x.res = "EQUAL" /\ x.hasVal}, d \in {x \in Cmps : x.res = "NOT_EQUAL"}}

Marker == [t |-> "put", k |-> AllKeys[1], v |-> <<1>>, prev |-> TRUE]
\* (a) every predicate list, branches distinguishable; (b) every op list of length <= 2 (write first)
Txns == {[t |-> "TXN", cmp |-> c, succ |-> <<Marker>>, fail |-> f] : c \in CmpLists, f \in {<<>>, <<[Marker EXCEPT !.v = <<>>]>>}}
        \cup {[t |-> "TXN", cmp |-> <<>>, succ |-> s, fail |-> <<>>] :
                s \in {<<>>} \cup {<<o>> : o \in TxnOps} \cup {<<w, o>> : w \in WriteOps, o \in TxnOps}}
        \cup {[t |-> "TXN", cmp |-> <<[k |-> AllKeys[2], end |-> NoEnd, res |-> "EQUAL", hasVal |-> FALSE, val |-> <<>>]>>,
               succ |-> <<>>, fail |-> <<w, o>>] : w \in WriteOps, o \in RangeOps}

SeqParts == {[t |-> "PUT", k |-> AllKeys[1], v |-> <<1>>, prev |-> FALSE],
             [t |-> "PUT", k |-> AllKeys[1], v |-> <<>>, prev |-> TRUE],
             [t |-> "DEL", k |-> AllKeys[1], end |-> NoEnd, prev |-> TRUE, count |-> TRUE],
             [t |-> "DEL", k |-> AllKeys[1], end |-> Wild, prev |-> FALSE, count |-> TRUE],
             [t |-> "TXN", cmp |-> <<[k |-> AllKeys[1], end |-> NoEnd, res |-> "EQUAL", hasVal |-> TRUE, val |-> <<1>>]>>,
                 succ |-> <<[t |-> "range", k |-> AllKeys[1], end |-> Wild, limit |-> 0, keysOnly |-> FALSE, countOnly |-> FALSE]>>,
                 fail |-> <<Marker>>],
             [t |-> "DUMMY"]}
Seqs == {[t |-> "SEQ", cmds |-> s] : s \in {<<>>} \cup {<<a>> : a \in SeqParts} \cup {<<a, b>> : a \in SeqParts, b \in SeqParts}}

Cmds == IF Alphabet = "writes" THEN {c \in Puts : ~c.prev} \cup {c \in Dels : ~c.prev /\ ~c.count /\ c.end = NoEnd}
        ELSE Puts \cup Dels \cup PutBs \cup DelBs \cup Txns \cup Seqs \cup {[t |-> "DUMMY"]}

\* first entry of a two-entry batch: plain writes that do NOT index the batch
PreWrites == {c \in Puts : ~c.prev} \cup {c \in Dels : ~c.prev /\ ~c.count /\ c.end \in {NoEnd, Wild}}

LIs == {NoLI, 0, 5}
\* a SEQUENCE as a replication worker builds it: every command carries its leader index (sli = index + 1)
RepParts(a, b) == <<[t |-> "PUT", k |-> AllKeys[1], v |-> <<1>>, prev |-> TRUE, sli |-> a + 1],
                    [t |-> "TXN", cmp |-> <<[k |-> AllKeys[1], end |-> NoEnd, res |-> "EQUAL", hasVal |-> TRUE, val |-> <<1>>]>>,
                        succ |-> <<[t |-> "put", k |-> AllKeys[2], v |-> <<1>>, prev |-> TRUE]>>,
                        fail |-> <<Marker>>, sli |-> b + 1]>>
RepSeqs == {[t |-> "SEQ", cmds |-> RepParts(3, 6)], [t |-> "SEQ", cmds |-> RepParts(5, 6)],
            [t |-> "SEQ", cmds |-> <<[t |-> "SEQ", cmds |-> RepParts(3, 6), sli |-> 7]>>]}
Batches(idx) ==
  {<<[i |-> idx + 1, c |-> c, li |-> NoLI]>> : c \in Cmds}
  \cup (IF Pairs THEN {<<[i |-> idx + 1, c |-> w, li |-> NoLI], [i |-> idx + 2, c |-> c, li |-> NoLI]>> : w \in PreWrites, c \in Cmds} ELSE {})
  \* leader index carried by any subset of the entries of a batch (C03)
  \cup {<<[i |-> idx + 1, c |-> [t |-> "DUMMY"], li |-> a], [i |-> idx + 3, c |-> [t |-> "PUT", k |-> AllKeys[1], v |-> <<1>>, prev |-> FALSE], li |-> b]>> :
          a \in LIs, b \in LIs}
  \cup {<<[i |-> idx + 1, c |-> [t |-> "DUMMY"], li |-> a]>> : a \in LIs}
  \* replicated sequences on top of every recorded leader index, alone and after an entry of the same batch that sets one (C05)
  \cup (IF Alphabet = "writes" THEN {} ELSE
          {<<[i |-> idx + 1, c |-> s, li |-> o]>> : s \in RepSeqs, o \in {NoLI, 2, 6}}
          \cup {<<[i |-> idx + 1, c |-> [t |-> "DUMMY"], li |-> a], [i |-> idx + 2, c |-> s, li |-> o]>> : a \in LIs, s \in RepSeqs, o \in {NoLI, 2, 6}})

ReadOps == {[t |-> "range", k |-> k, end |-> e, limit |-> l, keysOnly |-> f = 1, countOnly |-> f = 2] :
              k \in Keys \cup {<<97, 255>>}, e \in UNION {TopEnds(x) : x \in Keys} \ {<<>>}, l \in 0..3, f \in {0, 1, 2}}

VARIABLES db, abs, ok
vars == <<db, abs, ok>>

WithSz(r) == [t |-> "range", kvs |-> r.kvs, count |-> r.count, more |-> r.more, sz |-> RespSize(r.kvs)]
RECURSIVE WithSzAll(_)
WithSzAll(rs) == IF rs = <<>> THEN <<>>
                 ELSE <<IF Head(rs).t = "range" THEN WithSz(Head(rs)) ELSE Head(rs)>> \o WithSzAll(Tail(rs))

\* abstract results of a batch
RECURSIVE AbsBatch(_, _)
AbsBatch(st, es) ==
  IF es = <<>> THEN [st |-> st, res |-> <<>>]
  ELSE LET x == ApplyEntry(st, Head(es))
           t == AbsBatch(x.st, Tail(es))
       IN [st |-> t.st, res |-> <<[val |-> x.val, r |-> x.r]>> \o t.res]

ResultsOK(es, exp, got) ==
  /\ Len(exp) = Len(got)
  /\ \A i \in 1..Len(exp) :
       /\ got[i].val = exp[i].val
       /\ RespsMatch(exp[i].r, WithSzAll(got[i].rs))
       /\ (got[i].data => got[i].rev = es[i].i)

Init == db = EmptyStore /\ abs = InitTable /\ ok = TRUE

\* (bounded quantification over singletons = call by value: TLC does not cache LET
\* definitions in an action, so u and a would be re-evaluated at every use)
Next ==
  \E b \in Batches(abs.idx) :
    \E u \in {Update(db, b)}, a \in {AbsBatch(abs, b)} :
       /\ db' = u.db
       /\ abs' = a.st
       /\ ok' = (ResultsOK(b, a.res, u.res) /\ ~u.bad)
       \* (G) behaviours for replay: from-state, batch (expected values are recomputed by Trace_Table)
       /\ \/ Sample = 0
          \/ RandomElement(1..Sample) # 1
          \/ PrintT("TRANSITION " \o ToJson([from |-> KVSeq(abs.kv, Sorted(DOMAIN abs.kv), TRUE),
                                              idx |-> abs.idx, lidx |-> abs.lidx, batch |-> b]))

Spec == Init /\ [][Next]_vars

Bound == abs.idx < Depth * 3

(***************************************************************************)
(* Invariants                                                              *)
(***************************************************************************)
ResultsRefine == ok                                 \* every response equals the abstract one; no unindexed read
StateRefines  == AbsOf(db) = abs                    \* decoded store + bookkeeping = abstract state
\* no user command can read, shadow or alter bookkeeping: only user keys and the two system keys exist
OnlyKnownKeys == \A e \in DOMAIN db : DecType(e) = TypeUser \/ e \in {SysLocalIndex, SysLeaderIndex}
ReadsRefine ==
  \A op \in ReadOps :
     /\ RangeMatch(RangeRead(abs.kv, op), WithSz(Lookup(db, op)))
     \* streamed read: chunks concatenate to the unbounded answer, all but the last flagged more
     /\ LET ch  == IterLookup(db, op)
            exp == RangeRead(abs.kv, op)
            cat[i \in 0..Len(ch)] == IF i = 0 THEN <<>> ELSE cat[i - 1] \o ch[i].kvs
            cnt[i \in 0..Len(ch)] == IF i = 0 THEN 0 ELSE cnt[i - 1] + ch[i].count
        IN /\ cat[Len(ch)] = exp.kvs
           /\ cnt[Len(ch)] = exp.count
           /\ \A i \in 1..Len(ch) : /\ RespSize(ch[i].kvs) < TransportLimit
                                    /\ (i < Len(ch) => ch[i].more)
           /\ ch[Len(ch)].more = exp.more
=============================================================================
