SPECIFICATION Spec
CONSTANTS
  MaxLog = 7
  CacheSize = 2
  MaxSize = 3
  Sizes = {1, 3}
  Sessions = {1, 2}
  Mode = "fixed"
  Record = TRUE
  Sample = 1
  Cached = TRUE
  MaxSteps = 14
INVARIANTS CacheOK Export
CHECK_DEADLOCK FALSE
