SPECIFICATION Spec
CONSTANTS
  Lens = {0, 1, 2, 5}
  MaxRecords = 3
  MaxChunk = 4
INVARIANTS PrefixOK Complete
CHECK_DEADLOCK FALSE
