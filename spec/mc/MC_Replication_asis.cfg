SPECIFICATION Fair
CONSTANTS
  MaxLog = 4
  MsgLimit = 2
  PropLimit = 1
  MaxRestarts = 1
  MaxTimeouts = 2
  Mode = "asis"
INVARIANTS ExactlyOnceInOrder
PROPERTIES IndexMonotone Converges
CHECK_DEADLOCK FALSE
