SPECIFICATION Spec
CONSTANTS
  MaxKeyLen = 2
  MaxRange = 1000
  Overhead = 0
  CutFloor = 1000
  TransportLimit = 2000
  NKeys = 3
  Depth = 2
  Pairs = FALSE
  Sample = 0
  Alphabet = "all"
INVARIANTS ResultsRefine StateRefines OnlyKnownKeys
CONSTRAINT Bound
CHECK_DEADLOCK FALSE
