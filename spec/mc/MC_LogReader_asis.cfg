SPECIFICATION Spec
CONSTANTS
  MaxLog = 5
  CacheSize = 2
  MaxSize = 3
  Sizes = {1, 3}
  Sessions = {1, 2}
  Mode = "asis"
  Record = FALSE
  Sample = 0
  Cached = TRUE
  MaxSteps = 0
INVARIANTS StreamExact UseSnapshotOnlyIfCompacted LeaderBehindOnlyIfBeyond EmptyOnlyAtEnd EmptyCarriesApplied CacheOK CacheTransparent
CHECK_DEADLOCK FALSE
