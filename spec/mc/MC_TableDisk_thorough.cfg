SPECIFICATION Spec
CONSTANTS
  Mode = "fixed"
  MaxIdx = 4
  MaxCrashes = 3
  DBNames = {"d1", "d2", "d3", "d4", "d5"}
INVARIANTS ReopenSucceeds NothingSyncedIsLost
CHECK_DEADLOCK FALSE
