SPECIFICATION Spec
CONSTANTS
  MaxTerm = 3
  MaxCC = 2
  MaxSteps = 3
  Record = FALSE
  Sample = 0
INVARIANTS ViewIsJoin JoinAgrees
PROPERTIES TermMonotone LeaderKept
CHECK_DEADLOCK FALSE
