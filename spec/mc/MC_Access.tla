----------------------------- MODULE MC_Access -----------------------------
EXTENDS Access
VARIABLES c
Init == c \in [kind : {"token"}, x : TokenUniverse] \cup [kind : {"tls"}, x : TlsUniverse]
Next == UNCHANGED c
Spec == Init /\ [][Next]_c
\* the decision tables are total and a configured token always denies a caller without it
Total == IF c.kind = "token" THEN TokenDecision(c.x) \in {"allow", "deny", "open"} ELSE TlsDecision(c.x) \in {"accept", "reject", "open"}
NoTokenNoEntry == c.kind = "token" /\ c.x.conf = "T" /\ c.x.pres \in {"none", "empty", "other"} => TokenDecision(c.x) = "deny"
WrongCANoEntry == c.kind = "tls" /\ c.x.srv.ca /\ c.x.cert \in {"none", "selfsigned_rightcn", "otherca_rightcn"} => TlsDecision(c.x) = "reject"
Export == PrintT("BEHAVIOUR " \o ToJson(c))
=============================================================================
