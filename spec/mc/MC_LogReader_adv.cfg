SPECIFICATION Spec
CONSTANTS
  MaxLog = 3
  CacheSize = 2
  MaxSize = 3
  Sizes = {1, 3}
  Sessions = {1, 2}
  Mode = "asis"
  Record = TRUE
  Sample = 0
  Cached = TRUE
  MaxSteps = 7
INVARIANTS ExportBad
CONSTRAINT HistBound
CHECK_DEADLOCK FALSE
