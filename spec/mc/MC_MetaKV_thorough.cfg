SPECIFICATION Spec
CONSTANTS
  LogLen = 3
  NRep = 2
  Sample = 0
  NKeys = 3
INVARIANTS RefinesLog Converged CasRule VersionsGrow StoreVersOK Export
CHECK_DEADLOCK FALSE
