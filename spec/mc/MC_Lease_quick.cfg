SPECIFICATION Spec
CONSTANTS
  Nodes = {1, 2, 3}
  MaxCalls = 2
  Record = FALSE
  Sample = 0
INVARIANTS AtMostOneHolder HolderOwnsRecord IndInvL
PROPERTIES GrantSafe
CHECK_DEADLOCK FALSE
