SPECIFICATION Spec
CONSTANTS
  Mode = "fixed"
  DefaultLimit = 4
  MaxRecords = 7
  MaxThreshold = 12
  Record = FALSE
INVARIANTS PairsExact IndexDeclared
CHECK_DEADLOCK FALSE
