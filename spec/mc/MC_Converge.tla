---------------------------- MODULE MC_Converge ----------------------------
(* C03: replicas of one table consume ONE log, cut into apply batches        *)
(* independently, with clean reopen and snapshot transfer at any cut point.  *)
(* State and per-entry results must depend on the log only.                  *)
EXTENDS TableApply, TLC, Json

CONSTANTS LogLen, NRep, Sample

K1 == <<97>>
K2 == <<97, 0>>
PutC(k, v, p) == [t |-> "PUT", k |-> k, v |-> v, prev |-> p]
\* an alphabet chosen so that batching could matter: leader index on some entries only,
\* reads inside the batch (prev_kv, count, txn compare), range delete, sequence, no-op
Alphabet ==
  { [c |-> PutC(K1, <<1>>, FALSE), li |-> NoLI],
    [c |-> PutC(K1, <<>>, TRUE), li |-> 5],
    [c |-> PutC(K2, <<1>>, TRUE), li |-> NoLI],
    [c |-> [t |-> "DEL", k |-> K1, end |-> Wild, prev |-> TRUE, count |-> TRUE], li |-> NoLI],
    [c |-> [t |-> "DEL", k |-> K1, end |-> NoEnd, prev |-> FALSE, count |-> FALSE], li |-> 7],
    [c |-> [t |-> "TXN", cmp |-> <<[k |-> K1, end |-> NoEnd, res |-> "EQUAL", hasVal |-> TRUE, val |-> <<1>>]>>,
              succ |-> <<[t |-> "put", k |-> K2, v |-> <<>>, prev |-> TRUE]>>,
              fail |-> <<[t |-> "put", k |-> K1, v |-> <<1>>, prev |-> FALSE]>>], li |-> NoLI],
    [c |-> [t |-> "TXN", cmp |-> <<>>, succ |-> <<>>, fail |-> <<>>], li |-> NoLI],
    [c |-> [t |-> "SEQ", cmds |-> <<PutC(K1, <<1>>, FALSE), PutC(K1, <<>>, TRUE)>>], li |-> 9],
    \* a sequence as a replication worker builds it (commands carry leader indices 6 and 8): what it does depends on
    \* the recorded leader index, which an earlier entry of the SAME apply batch may have set
    [c |-> [t |-> "SEQ", cmds |-> <<[t |-> "PUT", k |-> K1, v |-> <<1>>, prev |-> TRUE, sli |-> 7],
                                     [t |-> "TXN", cmp |-> <<[k |-> K1, end |-> NoEnd, res |-> "EQUAL", hasVal |-> TRUE, val |-> <<1>>]>>,
                                        succ |-> <<[t |-> "put", k |-> K2, v |-> <<1>>, prev |-> TRUE]>>,
                                        fail |-> <<[t |-> "put", k |-> K1, v |-> <<>>, prev |-> TRUE]>>, sli |-> 9]>>], li |-> 8],
    [c |-> [t |-> "DUMMY"], li |-> 0],
    [c |-> [t |-> "DUMMY"], li |-> NoLI] }

VARIABLES log,      \* the committed log: seq of [i, c, li]
          rep       \* replica -> [db, n (entries applied), res (results of the entries it applied itself, by position)]
vars == <<log, rep>>

Reps == 1..NRep

Init ==
  /\ log \in UNION {[1..n -> Alphabet] : n \in 1..LogLen}
  /\ rep = [r \in Reps |-> [db |-> EmptyStore, n |-> 0, res |-> <<>>]]

Entry(j) == [i |-> j, c |-> log[j].c, li |-> log[j].li]
Entries(a, b) == [j \in 1..(b - a) |-> Entry(a + j)]

\* one FSM.Update call with entries n+1 .. n+k
Apply(r, k) ==
  /\ rep[r].n + k <= Len(log)
  /\ \E u \in {Update(rep[r].db, Entries(rep[r].n, rep[r].n + k))} :
        rep' = [rep EXCEPT ![r] = [db |-> u.db, n |-> @.n + k,
                                    res |-> @.res \o [j \in 1..k |-> [pos |-> rep[r].n + j, val |-> u.res[j].val, rs |-> u.res[j].rs, data |-> u.res[j].data]]]]
  /\ UNCHANGED log

\* snapshot transfer r -> s (forward only, as Raft does); clean reopen changes nothing and must report n
Snapshot(r, s) ==
  /\ r # s /\ rep[r].n > rep[s].n
  /\ rep' = [rep EXCEPT ![s] = [db |-> rep[r].db, n |-> rep[r].n, res |-> @.res]]
  /\ UNCHANGED log

Next == \/ \E r \in Reps, k \in 1..LogLen : Apply(r, k)
        \/ \E r \in Reps, s \in Reps : Snapshot(r, s)

Spec == Init /\ [][Next]_vars

(***************************************************************************)
(* abstract reference: the log applied entry by entry                      *)
(***************************************************************************)
AbsAt[n \in 0..LogLen] ==
  IF n = 0 \/ n > Len(log) THEN [st |-> InitTable, val |-> 1, r |-> <<>>]
  ELSE ApplyEntry(AbsAt[n - 1].st, Entry(n))

RefinesLog ==
  \A r \in Reps :
     /\ AbsOf(rep[r].db) = AbsAt[rep[r].n].st                 \* content + local index + leader index
     /\ ReadIndex(rep[r].db, SysLocalIndex) = rep[r].n        \* reopen would report n
     /\ \A j \in 1..Len(rep[r].res) :
          LET x == rep[r].res[j] IN
          /\ x.val = AbsAt[x.pos].val
          /\ RespsMatch(AbsAt[x.pos].r, x.rs)

Converged ==
  \A r, s \in Reps :
     /\ (rep[r].n = rep[s].n => rep[r].db = rep[s].db)
     /\ \A i \in 1..Len(rep[r].res), j \in 1..Len(rep[s].res) :
          rep[r].res[i].pos = rep[s].res[j].pos => rep[r].res[i] = rep[s].res[j]

\* (G) when every replica has applied the whole log, print the behaviour's log for replay
AllDone == \A r \in Reps : rep[r].n = Len(log)
Export ==
  AllDone /\ Sample > 0 /\ RandomElement(1..Sample) = 1 =>
     PrintT("BEHAVIOUR " \o ToJson([log |-> [j \in 1..Len(log) |-> [i |-> j, c |-> log[j].c, li |-> log[j].li]]]))
=============================================================================
