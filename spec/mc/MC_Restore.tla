----------------------------- MODULE MC_Restore -----------------------------
EXTENDS Restore

CONSTANTS MaxRecords, MaxThreshold, Record

Declared == 42
Streams == UNION {{[i \in 1..(n + 1) |-> IF i <= n THEN [kind |-> "PUT", k |-> i, sz |-> f[i], li |-> NoLI]
                                         ELSE [kind |-> "DUMMY", k |-> 0, sz |-> 1, li |-> Declared]] :
                     f \in [1..n -> {1, 2, 3}]} : n \in 0..MaxRecords}

VARIABLES stream, th
vars == <<stream, th>>
Init == stream \in Streams /\ th \in 0..MaxThreshold
Next == UNCHANGED vars
Spec == Init /\ [][Next]_vars

Props == ReadIntoTable(stream, th)
\* no pair lost, altered, added or reordered, whatever the threshold
PairsExact == CatPairs(Props) = StreamPairs(stream)
\* the restored table records the index the stream declares
IndexDeclared == FinalLI(Props) = Declared

ExportBad == ~(PairsExact /\ IndexDeclared) /\ Record =>
               PrintT("BEHAVIOUR " \o ToJson([sizes |-> [i \in 1..(Len(stream) - 1) |-> stream[i].sz], th |-> th]))
=============================================================================
