SPECIFICATION Spec
CONSTANTS
  Mode = "asis"
  MaxIdx = 3
  MaxCrashes = 2
  DBNames = {"d1", "d2", "d3", "d4"}
INVARIANTS ReopenSucceeds NothingSyncedIsLost
CHECK_DEADLOCK FALSE
