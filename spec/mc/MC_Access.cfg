SPECIFICATION Spec
INVARIANTS Total NoTokenNoEntry WrongCANoEntry Export
CHECK_DEADLOCK FALSE
