SPECIFICATION Spec
CONSTANTS
  MaxKeyLen = 2
  MaxRange = 4
  Overhead = 0
  CutFloor = 4
  TransportLimit = 8
  NKeys = 4
  Depth = 4
  Pairs = FALSE
  Sample = 0
  Alphabet = "writes"
INVARIANTS StateRefines ReadsRefine
CONSTRAINT Bound
CHECK_DEADLOCK FALSE
