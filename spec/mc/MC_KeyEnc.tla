----------------------------- MODULE MC_KeyEnc -----------------------------
(* C12 at design level: the encoding of storage/table/key (KeyEnc) is        *)
(* injective, order preserving, keeps every user key inside the wildcard     *)
(* range and the bookkeeping keys outside every user range.  All pairs of    *)
(* keys over Alpha up to MaxKeyLen + 1 (the API accepts keys longer than the *)
(* "maximum key" used for the wildcard bound: 1024 vs 1019 bytes).           *)
EXTENDS KeyEnc, TLC

CONSTANTS Alpha

Keys == NonEmptyStrings(Alpha, MaxKeyLen + 1)
Wild == <<0>>
UpperFor(h) == IF h = Wild THEN WildBound ELSE EncUser(h)

VARIABLES a, b
vars == <<a, b>>
Init == a \in Keys /\ b \in Keys
Next == UNCHANGED vars
Spec == Init /\ [][Next]_vars

RoundTrip == DecKey(EncUser(a)) = a /\ DecType(EncUser(a)) = TypeUser
Injective == a # b => EncUser(a) # EncUser(b)
OrderPreserving == (Less(a, b) <=> Less(EncUser(a), EncUser(b))) /\ (Cmp(a, b) = Cmp(EncUser(a), EncUser(b)))
InsideWildcard == Leq(EncUser(<<0>>), EncUser(a)) /\ Less(EncUser(a), WildBound)
\* no range [a, b) or [a, '\0') a user can express contains a bookkeeping key
SysOutside ==
  \A s \in {SysLocalIndex, SysLeaderIndex} :
     /\ Leq(WildBound, s)
     /\ ~(Leq(EncUser(a), s) /\ Less(s, UpperFor(b)))
     /\ ~(Leq(EncUser(a), s) /\ Less(s, UpperFor(Wild)))
     /\ s # EncUser(a)
\* the wildcard bound is the first key of the next key type: nothing of the user type reaches it
BoundIsNextType == WildBound[5] = TypeUser + 1 /\ \A i \in 6..Len(WildBound) : WildBound[i] = 0
=============================================================================
