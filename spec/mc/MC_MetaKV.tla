----------------------------- MODULE MC_MetaKV -----------------------------
(* C13 at design level: replicas of the metadata state machine consume one   *)
(* log of set/delete entries with arbitrary supplied versions, in apply      *)
(* batches cut independently, with snapshot/restore at any point.            *)
EXTENDS MetaKV, TLC, Json

CONSTANTS LogLen, NRep, Sample, NKeys

AllKeys == << <<"tables", "a">>, <<"tables", "a", "lease">>, <<"cleanup", "1", "7">> >>
Keys == {AllKeys[i] : i \in 1..NKeys}
Vals == {"x", "y"}
\* supplied versions: zero, any index that may be current or stale, a future one
Vers == 0..(LogLen + 1)
Entries == [op : {"set", "delete"}, k : Keys, val : Vals, ver : Vers]

VARIABLES log, rep, issued
\* rep[r] = [s (store), n (applied), res (results by position)]; issued = versions handed out so far, in order
vars == <<log, rep, issued>>
Reps == 1..NRep

Init == /\ log = <<>>
        /\ rep = [r \in Reps |-> [s |-> EmptyStore, n |-> 0, res |-> <<>>]]
        /\ issued = <<>>

Propose(e) == /\ Len(log) < LogLen
              /\ log' = Append(log, e)
              /\ UNCHANGED <<rep, issued>>

Ent(j) == [i |-> j, op |-> log[j].op, k |-> log[j].k, val |-> log[j].val, ver |-> log[j].ver]

Apply(r, k) ==
  /\ rep[r].n + k <= Len(log)
  /\ \E u \in {ApplyBatch(rep[r].s, [j \in 1..k |-> Ent(rep[r].n + j)])} :
       /\ rep' = [rep EXCEPT ![r] = [s |-> u.s, n |-> @.n + k, res |-> @.res \o u.res]]
       /\ issued' = IF r = 1 THEN issued \o [j \in 1..k |-> IF u.res[j].code = 1 THEN u.res[j].ver ELSE 0] ELSE issued
  /\ UNCHANGED log

\* PrepareSnapshot/SaveSnapshot on r, RecoverFromSnapshot on t (whatever t held before is replaced)
Snapshot(r, t) ==
  /\ r # t /\ rep[r].n >= rep[t].n
  /\ rep' = [rep EXCEPT ![t] = [s |-> rep[r].s, n |-> rep[r].n, res |-> SubSeq(rep[r].res, 1, rep[r].n)]]
  /\ UNCHANGED <<log, issued>>

Next == \/ \E e \in Entries : Propose(e)
        \/ \E r \in Reps, k \in 1..LogLen : Apply(r, k)
        \/ \E r, t \in Reps : Snapshot(r, t)

Spec == Init /\ [][Next]_vars

\* reference: entry by entry
Ref[n \in 0..LogLen] == IF n = 0 \/ n > Len(log) THEN [s |-> EmptyStore, res |-> [code |-> 0]]
                        ELSE ApplyOne(Ref[n - 1].s, Ent(n))

RefinesLog == \A r \in Reps : rep[r].s = Ref[rep[r].n].s /\ \A j \in 1..Len(rep[r].res) : rep[r].res[j] = Ref[j].res
Converged == \A r, t \in Reps : rep[r].n = rep[t].n => rep[r].s = rep[t].s
\* an update of an existing key succeeded only with the current version; mismatch reports the current pair
CasRule ==
  \A j \in 1..Len(log) : j <= rep[1].n =>
     LET before == Ref[j - 1].s
         r == rep[1].res[j] IN
     /\ (Has(before, log[j].k) /\ before[log[j].k].ver # log[j].ver) <=> r.code = 2
     /\ r.code = 2 => (r.val = before[log[j].k].val /\ r.ver = before[log[j].k].ver)
     /\ r.code = 1 => r.ver = j
\* a successful set gives a version larger than every version handed out before
VersionsGrow == \A i, j \in 1..Len(issued) : i < j /\ issued[i] # 0 /\ issued[j] # 0 => issued[i] < issued[j]
StoreVersOK == \A r \in Reps : \A k \in DOMAIN rep[r].s : rep[r].s[k].ver \in 1..rep[r].n

AllDone == Len(log) = LogLen /\ \A r \in Reps : rep[r].n = LogLen
Export == AllDone /\ Sample > 0 /\ RandomElement(1..Sample) = 1 =>
            PrintT("BEHAVIOUR " \o ToJson([log |-> [j \in 1..Len(log) |-> Ent(j)]]))
=============================================================================
