SPECIFICATION Spec
CONSTANTS
  Mode = "asis"
  DefaultLimit = 4
  MaxRecords = 5
  MaxThreshold = 8
  Record = TRUE
INVARIANTS ExportBad
CHECK_DEADLOCK FALSE
