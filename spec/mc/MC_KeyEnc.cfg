SPECIFICATION Spec
CONSTANTS
  MaxKeyLen = 3
  Alpha = {0, 1, 254, 255}
INVARIANTS RoundTrip Injective OrderPreserving InsideWildcard SysOutside BoundIsNextType
CHECK_DEADLOCK FALSE
