SPECIFICATION Spec
CONSTANTS
  Mgrs = {1, 2}
  Names = {"a", "b"}
  MaxCalls = 3
  Record = TRUE
  Mode = "fixed"
  Lag = FALSE
  Sequential = FALSE
  Sample = 1
INVARIANTS IdsIncrease IdsUnique ListExact Export
CHECK_DEADLOCK FALSE
