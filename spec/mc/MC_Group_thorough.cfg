SPECIFICATION Spec
CONSTANTS
  Replicas = {1, 2, 3}
  Clients = {1, 2}
  MaxLog = 2
  MaxReads = 2
  Mode = "fixed"
INVARIANTS RevisionIsPosition ResultsAgree LinearizableSeesAcked ReadsSeePrefix
CONSTRAINT Bound
CHECK_DEADLOCK FALSE
