SPECIFICATION Spec
CONSTANTS
  MaxTerm = 3
  MaxCC = 2
  MaxSteps = 5
  Record = TRUE
  Sample = 1
INVARIANTS ViewIsJoin JoinAgrees Export
CHECK_DEADLOCK FALSE
