SPECIFICATION Spec
CONSTANTS
  Nodes = {1, 2, 3}
  MaxCalls = 2
  Record = TRUE
  Sample = 1
INVARIANTS AtMostOneHolder HolderOwnsRecord Export
CHECK_DEADLOCK FALSE
