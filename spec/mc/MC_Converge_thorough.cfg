SPECIFICATION Spec
CONSTANTS
  MaxKeyLen = 2
  MaxRange = 1000
  Overhead = 0
  CutFloor = 1000
  TransportLimit = 2000
  LogLen = 4
  NRep = 2
  Sample = 0
INVARIANTS RefinesLog Converged Export
CHECK_DEADLOCK FALSE
