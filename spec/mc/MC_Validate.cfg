SPECIFICATION Spec
INVARIANTS NeverEmpty InvalidNeverOK Export
CHECK_DEADLOCK FALSE
