SPECIFICATION Spec
CONSTANTS
  Mgrs = {1, 2}
  Names = {"a", "b"}
  MaxCalls = 2
  Record = FALSE
  Mode = "fixed"
  Lag = TRUE
  Sequential = TRUE
  Sample = 0
INVARIANTS IdsIncrease IdsUnique ListExact QuietCreate
PROPERTIES CreateOnlyIfAbsent QuietCreateStep
CHECK_DEADLOCK FALSE
