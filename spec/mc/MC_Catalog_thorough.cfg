SPECIFICATION Spec
CONSTANTS
  Mgrs = {1, 2}
  Names = {"a", "b"}
  MaxCalls = 3
  Record = FALSE
  Mode = "fixed"
  Lag = FALSE
  Sequential = FALSE
  Sample = 0
INVARIANTS IdsIncrease IdsUnique ListExact
PROPERTIES CreateOnlyIfAbsent
CHECK_DEADLOCK FALSE
