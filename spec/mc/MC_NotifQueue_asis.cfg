SPECIFICATION Spec
CONSTANTS
  Waiters = {1, 2, 3}
  Tables = {"t"}
  Revs = {0, 1, 2}
  MaxSteps = 7
  SweepMode = "asis"
  Record = FALSE
  Sample = 0
INVARIANTS NeverWedged AtMostOneAnswer GoneIsAnswered SuccessJustified ErrorJustified NoneLeftBehind HeapOrdered
CHECK_DEADLOCK FALSE
