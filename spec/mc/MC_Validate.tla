---------------------------- MODULE MC_Validate ----------------------------
EXTENDS Validate
VARIABLES r
Init == r \in Requests
Next == UNCHANGED r
Spec == Init /\ [][Next]_r
\* sanity of the decision table itself
NeverEmpty == Admissible(r) # {}
InvalidNeverOK == Violations(r) # {} => "OK" \notin Admissible(r)
Export == PrintT("BEHAVIOUR " \o ToJson(r))
=============================================================================
