------------------------------ MODULE Validate ------------------------------
(* C16: request-shape classes of the key-value and tables API and the         *)
(* outcomes the documented constraints admit.  A request is a record of       *)
(* CLASSES (table empty/unknown/known, key empty/ok/max/over, ...); the       *)
(* driver builds a real request of those classes.                             *)
(* Admissible(r) is the set of gRPC status codes the property allows.         *)
EXTENDS Integers, Sequences, FiniteSets, TLC, Json

NonOK == {"InvalidArgument", "Unimplemented", "NotFound", "FailedPrecondition", "OutOfRange", "ResourceExhausted", "Internal", "Unknown", "Aborted"}

KV == {"Range", "IterateRange", "Put", "DeleteRange", "Txn"}
Tables == {"known", "unknown", "empty"}
Keys == {"ok", "empty", "max", "over"}
Vals == {"ok", "max", "over"}
Ends == {"none", "ok"}
Filters == {"none", "min_mod", "max_mod", "min_create", "max_create"}
Nested == {"none", "put_ok", "put_emptykey", "put_overkey", "put_overval", "del_emptykey", "del_overkey", "range_ok", "emptyoneof",
           "range_neglimit", "range_ko_co", "range_overkey",
           \* an operation with an EMPTY oneof as the only operation, and after a read: a transaction without any write
           "emptyoneof_alone", "emptyoneof_after_range"}
Branches == {"executed", "other"}

\* the universe of request classes (fields that do not apply to an API are fixed to their neutral class)
Requests ==
  {[api |-> "Range", table |-> t, key |-> k, end |-> e, limit |-> l, ko |-> ko, co |-> co, filter |-> f, val |-> "ok", nested |-> "none", branch |-> "executed", node |-> "leader"] :
      t \in Tables, k \in Keys, e \in Ends, l \in {-1, 0, 1}, ko \in BOOLEAN, co \in BOOLEAN, f \in Filters}
  \cup {[api |-> "IterateRange", table |-> t, key |-> k, end |-> "ok", limit |-> l, ko |-> ko, co |-> co, filter |-> f, val |-> "ok", nested |-> "none", branch |-> "executed", node |-> "leader"] :
      t \in Tables, k \in Keys, l \in {-1, 0}, ko \in BOOLEAN, co \in BOOLEAN, f \in {"none", "min_mod"}}
  \cup {[api |-> "Put", table |-> t, key |-> k, end |-> "none", limit |-> 0, ko |-> FALSE, co |-> FALSE, filter |-> "none", val |-> v, nested |-> "none", branch |-> "executed", node |-> "leader"] :
      t \in Tables, k \in Keys, v \in Vals}
  \cup {[api |-> "DeleteRange", table |-> t, key |-> k, end |-> e, limit |-> 0, ko |-> FALSE, co |-> FALSE, filter |-> "none", val |-> "ok", nested |-> "none", branch |-> "executed", node |-> "leader"] :
      t \in Tables, k \in Keys, e \in Ends}
  \cup {[api |-> "Txn", table |-> t, key |-> "ok", end |-> "none", limit |-> 0, ko |-> FALSE, co |-> FALSE, filter |-> "none", val |-> "ok", nested |-> n, branch |-> b, node |-> "leader"] :
      t \in Tables, n \in Nested \ {"none"}, b \in Branches}
  \cup {[api |-> a, table |-> t, key |-> "ok", end |-> "none", limit |-> 0, ko |-> FALSE, co |-> FALSE, filter |-> "none", val |-> "ok", nested |-> "none", branch |-> "executed", node |-> nd] :
      a \in {"TablesCreate", "TablesDelete", "TablesList"}, t \in {"known", "unknown", "empty"}, nd \in {"leader", "follower"}}

\* the constraints a request violates, each with the codes it may be refused with
Violations(r) ==
  (IF r.api \in {"Range", "IterateRange"} /\ r.limit < 0 THEN {{"InvalidArgument"}} ELSE {})
  \cup (IF r.api \in {"Range", "IterateRange"} /\ r.ko /\ r.co THEN {{"InvalidArgument"}} ELSE {})
  \cup (IF r.filter # "none" THEN {{"Unimplemented"}} ELSE {})
  \cup (IF r.api \in KV /\ r.table = "empty" THEN {{"InvalidArgument"}} ELSE {})
  \cup (IF r.api \in KV /\ r.table = "unknown" THEN {{"NotFound"}} ELSE {})
  \cup (IF r.api \in KV \ {"Txn"} /\ r.key = "empty" THEN {{"InvalidArgument"}} ELSE {})
  \cup (IF r.api \in KV \ {"Txn"} /\ r.key = "over" THEN {NonOK} ELSE {})                \* over the size limit: refused, code not pinned
  \cup (IF r.api = "Put" /\ r.val = "over" THEN {NonOK} ELSE {})
  \* the same limits on every path that can create a record: operations nested in a transaction (executed branch)
  \cup (IF r.api = "Txn" /\ r.branch = "executed" /\ r.nested \in {"put_emptykey", "put_overkey", "put_overval", "del_emptykey", "del_overkey"} THEN {NonOK} ELSE {})
  \* tables API
  \cup (IF r.api \in {"TablesCreate", "TablesDelete"} /\ r.node = "follower" THEN {{"Unimplemented"}} ELSE {})
  \cup (IF r.api \in {"TablesCreate", "TablesDelete"} /\ r.node = "leader" /\ r.table = "empty" THEN {{"InvalidArgument"}} ELSE {})
  \cup (IF r.api = "TablesCreate" /\ r.node = "leader" /\ r.table = "known" THEN {NonOK} ELSE {})      \* exists already
  \cup (IF r.api = "TablesDelete" /\ r.node = "leader" /\ r.table = "unknown" THEN {NonOK} ELSE {})

\* constraints whose outcome the property leaves open: an invalid operation in the branch that is NOT executed
Open(r) == \/ r.api = "Txn" /\ r.branch = "other" /\ r.nested \in {"put_emptykey", "put_overkey", "put_overval", "del_emptykey", "del_overkey"}
           \* malformed READS nested in a transaction create no record: refusing or serving them is both admissible (the server must survive)
           \/ r.api = "Txn" /\ r.nested \in {"range_neglimit", "range_ko_co", "range_overkey"}
           \* an operation that names nothing, in a transaction that writes nothing: refused or served as a no-op
           \/ r.api = "Txn" /\ r.nested \in {"emptyoneof_alone", "emptyoneof_after_range"}

Admissible(r) == IF Violations(r) = {} THEN (IF Open(r) THEN {"OK"} \cup NonOK ELSE {"OK"})
                 ELSE UNION Violations(r)

\* a refused request leaves every table unchanged; a server survives every request
OutcomeOK(r, code, changed, alive) == alive /\ code \in Admissible(r) /\ (code # "OK" => ~changed)
=============================================================================
