------------------------------ MODULE TableDisk ------------------------------
(* C04 / C08 (install atomicity): the directory protocol by which a table's   *)
(* state machine makes "data + applied index" survive crashes:                *)
(* pebble/dir.go (CreateNodeDataDir, SaveCurrentDBDirName,                    *)
(* ReplaceCurrentDBFile, CleanupNodeDataDir, GetCurrentDBDirName) and         *)
(* storage/table/fsm (Open, Update, Sync, Close, snapshot recover), one       *)
(* file-system operation per action, under the strict fault model: a file's   *)
(* data is durable up to its last sync, a directory's entries up to the       *)
(* directory's last sync; the operator-provided base directory is durable.    *)
(* Pebble itself is abstracted: a DB directory holds a volatile applied       *)
(* index (memtable) and a durable one (flushed); Flush makes them equal       *)
(* atomically (trusted).  Mode "asis" = pinned commit, "fixed" = repaired.    *)
EXTENDS Integers, Sequences, FiniteSets, TLC

CONSTANTS Mode, MaxIdx, MaxCrashes, DBNames

None == "none"

VARIABLES
  hostE, hostD,     \* <base>/<host> exists / its entry in <base> is durable
  nodeE, nodeD,     \* <base>/<host>/<table> exists / its entry in <host> is durable
  cur, curD,        \* content of 'current' (name of a DB dir, None if the file does not exist): volatile / durable view
  upd, updD,        \* content of 'current.updating'
  dbE, dbD,         \* DB directories existing in the node dir: volatile / durable entries
  vol, dur,         \* DB dir -> applied index in memory / flushed to disk
  pc,               \* where the process is: "down" | "o1".. open protocol | "up" | "r1".. recover protocol
  db,               \* the DB the running process has open (None when down)
  newdb,            \* DB dir being created by the protocol in progress
  snapIdx,          \* index of the snapshot being installed
  floor,            \* GHOST index covered by the last COMPLETED sync / close / install
  crashes, failed   \* number of crashes so far; reopen failed for good
vars == <<hostE, hostD, nodeE, nodeD, cur, curD, upd, updD, dbE, dbD, vol, dur, pc, db, newdb, snapIdx, floor, crashes, failed>>

Init == /\ hostE = FALSE /\ hostD = FALSE /\ nodeE = FALSE /\ nodeD = FALSE
        /\ cur = None /\ curD = None /\ upd = None /\ updD = None
        /\ dbE = {} /\ dbD = {}
        /\ vol = [d \in DBNames |-> 0] /\ dur = [d \in DBNames |-> 0]
        /\ pc = "down" /\ db = None /\ newdb = None /\ snapIdx = 0 /\ floor = 0 /\ crashes = 0 /\ failed = FALSE

SyncNode == /\ curD' = cur /\ updD' = upd /\ dbD' = dbE        \* syncDir(<node>): its entries become durable
Fresh == CHOOSE d \in DBNames : d \notin dbE \cup dbD \cup {cur, curD, upd, updD}
HasFresh == \E d \in DBNames : d \notin dbE \cup dbD \cup {cur, curD, upd, updD}

(***************************************************************************)
(* FSM.Open                                                                *)
(***************************************************************************)
Start == /\ pc = "down" /\ ~failed /\ pc' = "o1"
         /\ UNCHANGED <<hostE, hostD, nodeE, nodeD, cur, curD, upd, updD, dbE, dbD, vol, dur, db, newdb, snapIdx, floor, crashes, failed>>
\* CreateNodeDataDir: MkdirAll
O1 == /\ pc = "o1" /\ hostE' = TRUE /\ nodeE' = TRUE /\ pc' = "o2"
      /\ UNCHANGED <<hostD, nodeD, cur, curD, upd, updD, dbE, dbD, vol, dur, db, newdb, snapIdx, floor, crashes, failed>>
\* syncDir(<host>)
O2 == /\ pc = "o2" /\ nodeD' = TRUE /\ pc' = IF Mode = "fixed" THEN "o2b" ELSE "o3"
      /\ UNCHANGED <<hostE, hostD, nodeE, cur, curD, upd, updD, dbE, dbD, vol, dur, db, newdb, snapIdx, floor, crashes, failed>>
\* repaired: syncDir(<base>) as well
O2b == /\ pc = "o2b" /\ hostD' = TRUE /\ pc' = "o3"
       /\ UNCHANGED <<hostE, nodeE, nodeD, cur, curD, upd, updD, dbE, dbD, vol, dur, db, newdb, snapIdx, floor, crashes, failed>>
\* IsNewRun?
O3 == /\ pc = "o3"
      /\ IF cur = None THEN /\ HasFresh /\ newdb' = Fresh /\ pc' = IF Mode = "fixed" THEN "n0" ELSE "n1"
                       ELSE /\ newdb' = newdb /\ pc' = "c1"
      /\ UNCHANGED <<hostE, hostD, nodeE, nodeD, cur, curD, upd, updD, dbE, dbD, vol, dur, db, snapIdx, floor, crashes, failed>>
\* ---- new run
\* repaired: MkdirAll(<db dir>) before 'current' can name it
N0 == /\ pc = "n0" /\ dbE' = dbE \cup {newdb} /\ pc' = "n1"
      /\ UNCHANGED <<hostE, hostD, nodeE, nodeD, cur, curD, upd, updD, dbD, vol, dur, db, newdb, snapIdx, floor, crashes, failed>>
\* SaveCurrentDBDirName: create + write + sync the updating file (its entry is still volatile)
N1 == /\ pc \in {"n1", "r3"} /\ upd' = newdb /\ pc' = IF pc = "n1" THEN "n2" ELSE "r4"
      /\ UNCHANGED <<hostE, hostD, nodeE, nodeD, cur, curD, updD, dbE, dbD, vol, dur, db, newdb, snapIdx, floor, crashes, failed>>
\* ... its deferred syncDir(<node>)
N2 == /\ pc \in {"n2", "r4"} /\ SyncNode /\ pc' = IF pc = "n2" THEN "n3" ELSE "r5"
      /\ UNCHANGED <<hostE, hostD, nodeE, nodeD, cur, upd, dbE, vol, dur, db, newdb, snapIdx, floor, crashes, failed>>
\* ReplaceCurrentDBFile: rename
N3 == /\ pc \in {"n3", "r5"} /\ cur' = upd /\ upd' = None /\ pc' = IF pc = "n3" THEN "n4" ELSE "r6"
      /\ UNCHANGED <<hostE, hostD, nodeE, nodeD, curD, updD, dbE, dbD, vol, dur, db, newdb, snapIdx, floor, crashes, failed>>
\* ... syncDir(<node>)
N4 == /\ pc \in {"n4", "r6"} /\ SyncNode /\ pc' = IF pc = "n4" THEN "p1" ELSE "r7"
      /\ UNCHANGED <<hostE, hostD, nodeE, nodeD, cur, upd, dbE, vol, dur, db, newdb, snapIdx, floor, crashes, failed>>
\* ---- existing run: CleanupNodeDataDir, GetCurrentDBDirName, Stat
C1 == /\ pc = "c1"
      /\ upd' = None /\ dbE' = dbE \cap {cur}
      /\ IF cur \in dbE THEN pc' = "p1" /\ newdb' = cur /\ failed' = failed
                        ELSE pc' = "down" /\ newdb' = newdb /\ failed' = TRUE      \* Open returns the stat error, for ever
      /\ UNCHANGED <<hostE, hostD, nodeE, nodeD, cur, curD, updD, dbD, vol, dur, db, snapIdx, floor, crashes>>
\* openDB: Pebble creates (or reopens) the directory; Open reports the durable index
P1 == /\ pc = "p1" /\ dbE' = dbE \cup {newdb} /\ db' = newdb /\ pc' = "up"
      /\ UNCHANGED <<hostE, hostD, nodeE, nodeD, cur, curD, upd, updD, dbD, vol, dur, newdb, snapIdx, floor, crashes, failed>>

(***************************************************************************)
(* running: Update (batch commit without WAL), Sync (flush), Close         *)
(***************************************************************************)
Update == /\ pc = "up" /\ vol[db] < MaxIdx /\ vol' = [vol EXCEPT ![db] = @ + 1]
          /\ UNCHANGED <<hostE, hostD, nodeE, nodeD, cur, curD, upd, updD, dbE, dbD, dur, pc, db, newdb, snapIdx, floor, crashes, failed>>
Sync == /\ pc = "up" /\ dur' = [dur EXCEPT ![db] = vol[db]] /\ floor' = vol[db]
        /\ UNCHANGED <<hostE, hostD, nodeE, nodeD, cur, curD, upd, updD, dbE, dbD, vol, pc, db, newdb, snapIdx, crashes, failed>>
Close == /\ pc = "up" /\ dur' = [dur EXCEPT ![db] = vol[db]] /\ floor' = vol[db] /\ pc' = "down" /\ db' = None
         /\ UNCHANGED <<hostE, hostD, nodeE, nodeD, cur, curD, upd, updD, dbE, dbD, vol, newdb, snapIdx, crashes, failed>>

(***************************************************************************)
(* snapshot recover (both formats have this shape): build a new DB dir,    *)
(* make its content durable, publish 'current', swap, clean up             *)
(***************************************************************************)
R1 == /\ pc = "up" /\ HasFresh /\ \E s \in (vol[db] + 1)..MaxIdx : snapIdx' = s
      /\ newdb' = Fresh /\ pc' = "r2"
      /\ UNCHANGED <<hostE, hostD, nodeE, nodeD, cur, curD, upd, updD, dbE, dbD, vol, dur, db, floor, crashes, failed>>
\* openDB(new dir) / untar + ingest: the new DB holds the snapshot durably (files synced, Pebble syncs its own directory)
R2 == /\ pc = "r2" /\ dbE' = dbE \cup {newdb}
      /\ vol' = [vol EXCEPT ![newdb] = snapIdx] /\ dur' = [dur EXCEPT ![newdb] = snapIdx] /\ pc' = "r3"
      /\ UNCHANGED <<hostE, hostD, nodeE, nodeD, cur, curD, upd, updD, dbD, db, newdb, snapIdx, floor, crashes, failed>>
\* (r3..r6 = N1..N4) then swap + close old + cleanup
R7 == /\ pc = "r7" /\ db' = newdb /\ dbE' = dbE \cap {cur} /\ floor' = snapIdx /\ pc' = "up"
      /\ UNCHANGED <<hostE, hostD, nodeE, nodeD, cur, curD, upd, updD, dbD, vol, dur, newdb, snapIdx, crashes, failed>>

(***************************************************************************)
(* crash: everything that is not durable is lost                           *)
(***************************************************************************)
Crash ==
  /\ pc # "down" /\ crashes < MaxCrashes
  /\ crashes' = crashes + 1 /\ pc' = "down" /\ db' = None
  /\ IF ~hostD \/ ~nodeD
     THEN \* the whole table directory is gone
          /\ hostE' = hostD /\ nodeE' = (hostD /\ nodeD)
          /\ cur' = None /\ curD' = None /\ upd' = None /\ updD' = None /\ dbE' = {} /\ dbD' = {}
          /\ vol' = [d \in DBNames |-> 0] /\ dur' = [d \in DBNames |-> 0]
     ELSE /\ hostE' = TRUE /\ nodeE' = TRUE
          /\ cur' = curD /\ upd' = updD /\ dbE' = dbD /\ UNCHANGED <<curD, updD, dbD>>
          /\ vol' = [d \in DBNames |-> IF d \in dbD THEN dur[d] ELSE 0]
          /\ dur' = [d \in DBNames |-> IF d \in dbD THEN dur[d] ELSE 0]
  /\ UNCHANGED <<hostD, nodeD, newdb, snapIdx, floor, failed>>

Next == Start \/ O1 \/ O2 \/ O2b \/ O3 \/ N0 \/ N1 \/ N2 \/ N3 \/ N4 \/ C1 \/ P1 \/ Update \/ Sync \/ Close \/ R1 \/ R2 \/ R7 \/ Crash
Spec == Init /\ [][Next]_vars

(***************************************************************************)
(* C04: reopening succeeds and reports an index >= the last completed sync *)
(***************************************************************************)
ReopenSucceeds == ~failed
NothingSyncedIsLost == pc = "up" => vol[db] >= floor
\* install atomicity (C08): after an interrupted install the table is entirely old or entirely new
CurrentNamesExistingDb == (pc = "up" \/ pc = "down") /\ cur # None /\ ~failed /\ pc # "down" => cur \in dbE
=============================================================================
