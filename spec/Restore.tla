------------------------------- MODULE Restore -------------------------------
(* C07: Manager.readIntoTable (storage/table/manager.go) as a function from a  *)
(* record stream to the sequence of proposals it makes.  A stream is a         *)
(* sequence of records [kind: "PUT" | "DUMMY", k, sz, li]; PUT records carry   *)
(* a pair (identified by k), the final DUMMY carries the declared index.       *)
(* Threshold = MaxInMemLogSize / 2 (0 when the setting is 0 = unlimited).      *)
(* Mode "asis" = pinned commit, "fixed" = repaired.                            *)
EXTENDS Integers, Sequences, FiniteSets, TLC, Json

CONSTANTS Mode, DefaultLimit

NoLI == -1

\* the loop: state [batch (seq of pair ids; 0 = a nil pair), li, est, props]
RECURSIVE Loop(_, _, _)
Loop(stream, th, s) ==
  IF stream = <<>>
  THEN \* reader returned EOF: propose what is left (always, even if empty)
       Append(s.props, [pairs |-> s.batch, li |-> s.li])
  ELSE LET r == Head(stream)
           est == s.est + r.sz
       IN IF Mode = "asis"
          THEN LET li == r.li IN                               \* batchCmd.LeaderIndex = cmd.LeaderIndex (every record)
               IF est < th
               THEN Loop(Tail(stream), th, [s EXCEPT !.batch = Append(@, IF r.kind = "PUT" THEN r.k ELSE 0), !.li = li, !.est = est])
               ELSE \* the record that reaches the threshold is NOT added to any batch
                    Loop(Tail(stream), th, [batch |-> <<>>, li |-> NoLI, est |-> 0,
                                            props |-> Append(s.props, [pairs |-> s.batch, li |-> li])])
          ELSE \* repaired: the record that reaches the limit starts the next batch; a command without a pair adds
               \* nothing; a zero setting batches by a fixed size
               LET li == r.li
                   limit == IF th = 0 THEN DefaultLimit ELSE th
                   add(b) == IF r.kind = "PUT" THEN Append(b, r.k) ELSE b
               IN IF est < limit
                  THEN Loop(Tail(stream), th, [s EXCEPT !.batch = add(s.batch), !.li = li, !.est = est])
                  ELSE Loop(Tail(stream), th, [batch |-> add(<<>>), li |-> NoLI, est |-> IF r.kind = "PUT" THEN r.sz ELSE 0,
                                               props |-> Append(s.props, [pairs |-> s.batch, li |-> li])])

ReadIntoTable(stream, th) == Loop(stream, th, [batch |-> <<>>, li |-> NoLI, est |-> 0, props |-> <<>>])

RECURSIVE CatPairs(_)
CatPairs(props) == IF props = <<>> THEN <<>> ELSE Head(props).pairs \o CatPairs(Tail(props))
StreamPairs(stream) == LET F[i \in 0..Len(stream)] == IF i = 0 THEN <<>> ELSE IF stream[i].kind = "PUT" THEN Append(F[i - 1], stream[i].k) ELSE F[i - 1]
                       IN F[Len(stream)]
\* the leader index the restored table ends with: the one carried by the last proposal that carries one
FinalLI(props) == LET c == {i \in 1..Len(props) : props[i].li # NoLI} IN
                  IF c = {} THEN NoLI ELSE props[CHOOSE i \in c : \A j \in c : j <= i].li
=============================================================================
