"""Shared machinery for /verif/bin/check: TLC runs, trace validation, harness build,
known findings, evidence files.  Exit codes of a check: 0 held, 1 VIOLATION, 2 no verdict."""
import json, os, re, shutil, subprocess, sys, time, hashlib

ROOT = os.path.dirname(os.path.dirname(os.path.abspath(__file__)))
SPEC = os.path.join(ROOT, "spec")
HARNESS = os.path.join(ROOT, "harness")
EVID = os.environ.get("VERIF_EVIDENCE_DIR", os.path.join(ROOT, "evidence"))
SCRATCH_BASE = os.environ.get("VERIF_SCRATCH", "/var/tmp/verif-scratch")
REPO = os.environ.get("VERIF_REPO", "/repo")
GOENV = dict(os.environ, GOFLAGS="-mod=mod", GOPROXY="off", GOSUMDB="off", GOTOOLCHAIN="local",
             CGO_ENABLED=os.environ.get("CGO_ENABLED", "1"))


class NoVerdict(Exception):
    """machinery problem: never a statement about the property"""


def log(*a):
    print(*a, flush=True)


def seed():
    try:
        return int(os.environ.get("VERIF_SEED", "1"))
    except ValueError:
        return 1


class Scratch:
    def __init__(self, name):
        self.path = os.path.join(SCRATCH_BASE, "%s.%d" % (name, os.getpid()))

    def __enter__(self):
        shutil.rmtree(self.path, ignore_errors=True)
        os.makedirs(self.path)
        return self.path

    def __exit__(self, *a):
        if not os.environ.get("VERIF_KEEP"):
            shutil.rmtree(self.path, ignore_errors=True)


# ------------------------------------------------------------------ harness
def build_vdrive(scratch):
    """build harness/cmd/vdrive against /repo's CURRENT working tree, hooks on (-tags verif)"""
    out = os.path.join(scratch, "vdrive")
    t0 = time.time()
    # the harness module replaces github.com/jamf/regatta => /repo
    harness = HARNESS
    if REPO != "/repo":
        # development aid (bin/mutest): build against a scratch worktree of jamf/regatta instead of /repo -
        # a copy of the harness module whose replace directive names that worktree
        harness = os.path.join(scratch, "harness")
        shutil.copytree(HARNESS, harness)
        gm = os.path.join(harness, "go.mod")
        gomod = open(gm).read()
        if "=> /repo" not in gomod:
            raise NoVerdict("harness go.mod has no replace directive for /repo")
        open(gm, "w").write(gomod.replace("=> /repo", "=> " + REPO))
    p = subprocess.run(["go", "build", "-tags", "verif", "-o", out, "./cmd/vdrive"], cwd=harness, env=GOENV,
                       stdout=subprocess.PIPE, stderr=subprocess.STDOUT, text=True)
    if p.returncode != 0:
        raise NoVerdict("harness build failed (a tree that does not compile is not a property verdict):\n" + p.stdout[-4000:])
    log("built vdrive in %.1fs" % (time.time() - t0))
    return out


def run(cmd, cwd=None, timeout=3600, env=None, ok_codes=(0,)):
    p = subprocess.run(cmd, cwd=cwd, env=env or GOENV, stdout=subprocess.PIPE, stderr=subprocess.STDOUT, text=True, timeout=timeout)
    if p.returncode not in ok_codes:
        raise NoVerdict("command failed (%d): %s\n%s" % (p.returncode, " ".join(cmd), p.stdout[-6000:]))
    return p.stdout


# ---------------------------------------------------------------------- TLC
def spec_files(*names):
    out = []
    for n in names:
        for d in (SPEC, os.path.join(SPEC, "trace"), os.path.join(SPEC, "mc"), os.path.join(SPEC, "proofs")):
            f = os.path.join(d, n)
            if os.path.exists(f):
                out.append(f)
                break
        else:
            raise NoVerdict("spec file not found: " + n)
    return out


def all_spec_files():
    out = []
    for d in (SPEC, os.path.join(SPEC, "trace"), os.path.join(SPEC, "mc"), os.path.join(SPEC, "proofs")):
        if os.path.isdir(d):
            out += [os.path.join(d, f) for f in os.listdir(d) if f.endswith(".tla")]
    # modules with TLAPS proofs extend TLAPS (a library module of the proof system, not on TLC's path)
    tl = "/opt/veriftools/tlapm/lib/tlapm/stdlib/TLAPS.tla"
    if os.path.exists(tl):
        out.append(tl)
    return out


def tlaps(workdir, module, timeout=1200):
    """check the proofs of a module with the TLA+ proof system; returns the number of obligations proved"""
    t0 = time.time()
    shutil.copy(spec_files(module + ".tla")[0], workdir)
    # tlapm starts back-end provers (z3, zenon, isabelle) as children: own process group, killed as a whole afterwards,
    # so that no prover survives a timeout or a failed proof and keeps a core busy
    import signal
    proc = subprocess.Popen(["tlapm", "--threads", "8", "--cleanfp", module + ".tla"], cwd=workdir, stdout=subprocess.PIPE,
                            stderr=subprocess.STDOUT, text=True, start_new_session=True)
    try:
        out, _ = proc.communicate(timeout=timeout)
    except subprocess.TimeoutExpired:
        out = None
    finally:
        try:
            os.killpg(proc.pid, signal.SIGKILL)
        except (ProcessLookupError, PermissionError):
            pass
    if out is None:
        raise NoVerdict("tlapm %s timed out" % module)
    m = re.search(r"All (\d+) obligations? proved", out)
    if proc.returncode != 0 or not m:
        raise NoVerdict("tlapm %s did not prove every obligation (a proof that does not go through is not a verdict about the code):\n%s"
                        % (module, out[-4000:]))
    return int(m.group(1)), time.time() - t0


class TLCResult:
    def __init__(self, out, rc, wall):
        self.out, self.rc, self.wall = out, rc, wall
        m = re.search(r"(\d+) states generated, (\d+) distinct states found", out)
        self.generated = int(m.group(1)) if m else 0
        self.distinct = int(m.group(2)) if m else 0
        m = re.search(r"depth of the complete state graph search is (\d+)", out)
        self.depth = int(m.group(1)) if m else 0
        self.violated = None
        m = re.search(r"Error: Invariant (\S+) is violated", out)
        if m:
            self.violated = m.group(1)
        m = re.search(r"Error: Action property (\S+)", out)
        if m:
            self.violated = m.group(1)
        if "Temporal properties were violated" in out:
            self.violated = "temporal"
        self.finished = "Model checking completed" in out or "Finished in" in out
        self.errors = [l for l in out.splitlines() if l.startswith("Error:")]

    @property
    def clean(self):
        return self.rc == 0 and not self.errors


def tlc(workdir, module, cfg=None, workers="auto", timeout=1800, extra=(), java_opts="", simulate=None):
    """run TLC on <module>.tla inside workdir (all spec files are copied there first)"""
    for f in all_spec_files():
        shutil.copy(f, workdir)
    for f in os.listdir(os.path.join(SPEC, "mc")) if os.path.isdir(os.path.join(SPEC, "mc")) else []:
        if f.endswith(".cfg"):
            shutil.copy(os.path.join(SPEC, "mc", f), workdir)
    for f in os.listdir(os.path.join(SPEC, "trace")) if os.path.isdir(os.path.join(SPEC, "trace")) else []:
        if f.endswith(".cfg"):
            shutil.copy(os.path.join(SPEC, "trace", f), workdir)
    md = os.path.join(workdir, "md.%s.%d" % (module, int(time.time() * 1000) % 100000))
    cmd = ["timeout", str(timeout), "tlc", "-workers", str(workers), "-metadir", md]
    if cfg:
        cmd += ["-config", cfg]
    if simulate:
        cmd += ["-simulate", simulate]
    cmd += list(extra) + [module + ".tla"]
    env = dict(os.environ)
    if java_opts:
        env["JAVA_TOOL_OPTIONS"] = java_opts
    t0 = time.time()
    p = subprocess.run(cmd, cwd=workdir, env=env, stdout=subprocess.PIPE, stderr=subprocess.STDOUT, text=True)
    shutil.rmtree(md, ignore_errors=True)
    r = TLCResult(p.stdout, p.returncode, time.time() - t0)
    if p.returncode == 124:
        raise NoVerdict("TLC timeout after %ds on %s" % (timeout, module))
    if "Parsing or semantic analysis failed" in p.stdout or "java.lang.OutOfMemoryError" in p.stdout or "StackOverflowError" in p.stdout:
        raise NoVerdict("TLC failed on %s:\n%s" % (module, p.stdout[-3000:]))
    return r


def model_check(workdir, module, cfg, workers="auto", timeout=1800, expect_clean=True, extra=()):
    """(D) exhaustive bounded run. Returns TLCResult; raises NoVerdict if the DESIGN check fails
    (a counterexample in the model is not a statement about the code - it is reproduced via replay)."""
    r = tlc(workdir, module, cfg, workers=workers, timeout=timeout, extra=extra)
    if expect_clean and not r.clean:
        raise NoVerdict("design-level model check %s/%s did not pass:\n%s" % (module, cfg, r.out[-5000:]))
    if r.distinct < 1:
        raise NoVerdict("model check %s produced no states:\n%s" % (module, r.out[-3000:]))
    return r


def validate_trace(workdir, trace_module, trace_file, deviations=(), timeout=1800, extra_constants=""):
    """(V) check an ndjson trace recorded from the real code against a trace specification.
    Returns dict(accepted, line, used, states, out)."""
    cfgname = "%s.gen.cfg" % trace_module
    base = open(spec_files(trace_module + ".cfg")[0]).read()
    base = re.sub(r'TraceFile\s*=\s*"[^"]*"', 'TraceFile = "%s"' % trace_file, base)
    devs = "{" + ", ".join('"%s"' % d for d in deviations) + "}"
    if re.search(r"Deviations\s*=", base):
        base = re.sub(r"Deviations\s*=\s*\{[^}]*\}", "Deviations = " + devs, base)
    with open(os.path.join(workdir, cfgname), "w") as f:
        f.write(base + "\n" + extra_constants)
    r = tlc(workdir, trace_module, cfgname, workers=1, timeout=timeout, java_opts="-Xss512m")
    m = re.search(r'"TRACE_REJECTED_AT_LINE", (\d+)', r.out)
    used = []
    m2 = re.search(r'"DEVIATIONS_USED", \{([^}]*)\}', r.out)
    if m2:
        used = re.findall(r'"([^"]+)"', m2.group(1))
    accepted = r.clean and m is None and "TRACE_ACCEPTED" in r.out
    line = int(m.group(1)) if m else None
    if not accepted and line is None:
        # an evaluation error inside the trace spec (type confusion etc.) is a machinery problem
        raise NoVerdict("trace validation %s ended without verdict:\n%s" % (trace_module, r.out[-5000:]))
    return dict(accepted=accepted, line=line, used=used, states=r.distinct, wall=r.wall, out=r.out)


# ----------------------------------------------------------- known findings
def known_findings(prop):
    """lines of KNOWN_FINDINGS.txt: 'finding: property=<id> deviation=<name> <what fails>'"""
    out = []
    p = os.path.join(ROOT, "KNOWN_FINDINGS.txt")
    if not os.path.exists(p):
        return out
    for l in open(p):
        m = re.match(r"finding:\s+property=(\S+)\s+deviation=(\S+)\s+(.*)", l.strip())
        if m and m.group(1) == prop:
            out.append(dict(deviation=m.group(2), what=m.group(3)))
    return out


# ---------------------------------------------------------------- evidence
def write_evidence(prop, tier, level, coverage, wall, violations=0, assumptions=(), extra=None):
    os.makedirs(EVID, exist_ok=True)
    ev = dict(property_id=prop, tier=tier, seed=seed(), level=level, coverage=coverage,
              assumptions=list(assumptions), wall_s=round(wall, 2), violations=violations)
    if extra:
        ev.update(extra)
    with open(os.path.join(EVID, prop + ".json"), "w") as f:
        json.dump(ev, f, indent=1, sort_keys=True)


def save_replay(prop, name, files, info):
    d = os.path.join(EVID, "replays", prop)
    os.makedirs(d, exist_ok=True)
    for src in files:
        if os.path.exists(src):
            shutil.copy(src, os.path.join(d, name + "." + os.path.basename(src)))
    p = os.path.join(d, name + ".json")
    info = dict(info, trace_files=[os.path.join(d, name + "." + os.path.basename(src)) for src in files if os.path.exists(src)])
    with open(p, "w") as f:
        json.dump(info, f, indent=1, default=str)
    return p


def replay_bundle(prop, path):
    """bin/check <prop> --replay <bundle.json>: re-validate the recorded trace of a reported violation with TLC (the trace
    is what the real code did then; nothing is executed again). exit 1 + VIOLATION line if TLC still rejects it."""
    info = json.load(open(path))
    traces = [t for t in info.get("trace_files", []) if os.path.exists(t)]
    if not traces:
        d, base = os.path.dirname(path), os.path.basename(path)[:-5]
        traces = [os.path.join(d, f) for f in os.listdir(d) if f.startswith(base + ".") and f.endswith(".ndjson")]
    if not traces:
        raise NoVerdict("replay bundle %s has no trace file" % path)
    with Scratch(prop + "-replay") as sc:
        for f in all_spec_files():
            shutil.copy(f, sc)
        shutil.copy(traces[0], os.path.join(sc, "replay.ndjson"))
        kf = known_findings(prop)
        r = validate_trace(sc, info["trace_module"], "replay.ndjson", deviations=[k["deviation"] for k in kf])
        if r["accepted"]:
            print("replay of %s: the recorded trace is accepted by %s (with the listed known findings)" % (path, info["trace_module"]))
            return 0
        print("replay of %s: %s rejects the recorded trace at line %s" % (path, info["trace_module"], r["line"]))
        print("VIOLATION property=%s replay=%s" % (prop, path), flush=True)
        return 1


def short(x, n=12):
    """compact rendering of trace events for samples"""
    if isinstance(x, list):
        if len(x) > n and all(isinstance(i, int) for i in x):
            return "<%d bytes %s..>" % (len(x), x[:4])
        return [short(i, n) for i in x[:8]]
    if isinstance(x, dict):
        return {k: short(v, n) for k, v in x.items() if v not in ([], False, 0, [-1]) or k in ("t", "ev")}
    return x
