#!/bin/bash
# confirm-seeded.sh <name> <property> <worktree> <patch> <demo> <destdir> <runpattern> [needs...]
# Confirms, in a scratch worktree, that a seeded change (a) compiles, (b) passes the existing suite,
# (c) fails its demonstration while the clean tree passes it; then stores it under /verif/seeded/<name>/.
set -u
name=$1; prop=$2; wt=$3; patch=$4; demo=$5; dest=$6; pat=$7; shift 7; needs="$*"
export GOFLAGS=-mod=mod GOPROXY=off GOSUMDB=off GOTOOLCHAIN=local
out=/verif/seeded/$name; mkdir -p $out
log=$out/confirm.log; : > $log
cd $wt || exit 2
git checkout -q -- . ; git clean -fdq
demoname=zz_seeded_demo_test.go
cp $demo $dest/$demoname
echo "== clean tree demo" >> $log
go test -tags verif -vet=off -count=1 -run "$pat" ./$dest/ >> $log 2>&1; clean_rc=$?
git apply $patch || { echo "patch does not apply" >> $log; exit 2; }
echo "== build" >> $log
go build ./... >> $log 2>&1; build_rc=$?
echo "== patched demo" >> $log
go test -tags verif -vet=off -count=1 -run "$pat" ./$dest/ >> $log 2>&1; patched_rc=$?
rm -f $dest/$demoname
echo "== full suite with patch" >> $log
go test -vet=off -count=1 ./... > $out/suite.log 2>&1
failed=$(grep -E "^(FAIL|---)" $out/suite.log | grep -E "^FAIL" | grep -v "util/iter" | awk '{print $2}' | sort -u)
# re-run failing packages once (port collisions between parallel suites are a known flake)
still=""
for p in $failed; do
  [ "$p" = "" ] && continue
  rel=${p#github.com/jamf/regatta}; rel=.${rel}
  if ! go test -vet=off -count=1 $rel >> $out/suite.log 2>&1; then still="$still $p"; fi
done
grep -E "^(ok|FAIL)" $out/suite.log | sort | uniq -c | sort -rn | head -40 >> $log
git checkout -q -- . ; git clean -fdq
cp $patch $out/patch.diff; cp $demo $out/demo_test.go
python3 - <<PY
import json
json.dump(dict(name="$name", breaks_property="$prop", needs_to_manifest="""$needs""",
  demo=dict(copy_to="$dest", run="go test -vet=off -count=1 -run '$pat' ./$dest/"),
  confirmed=dict(clean_tree_demo_rc=$clean_rc, build_rc=$build_rc, patched_demo_rc=$patched_rc, suite_failures_after_retry="""$still""".split()),
  ran=["clean: demo passes (rc 0 expected)", "git apply patch; go build ./...", "patched: demo fails (rc != 0 expected)", "go test -vet=off -count=1 ./... with patch (util/iter does not link under go1.23 on the clean tree either)"],
  ok=($clean_rc==0 and $build_rc==0 and $patched_rc!=0 and not """$still""".split())), open("$out/meta.json","w"), indent=1)
PY
rm -f $out/suite.log.tmp
echo "$name clean=$clean_rc build=$build_rc patched=$patched_rc suitefail='$still'"
