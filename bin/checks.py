"""Per-property check definitions.  See DESIGN.md section 6."""
import json, os, re, shutil, subprocess, time
from vlib import *  # noqa

REGISTRY = {}


def check(prop):
    def deco(f):
        REGISTRY[prop] = f
        return f
    return deco


class Ctx:
    def __init__(self, prop, tier, scratch, t0):
        self.prop, self.tier, self.sc, self.t0 = prop, tier, scratch, t0
        self.replay = None
        self.states = 0
        self.transitions = 0
        self.design_runs = []
        self.traces = 0          # behaviours of the real code validated by TLC
        self.events = 0
        self.samples = []
        self.violations = 0
        self.known = []
        self.assumptions = []
        self.notes = {}
        self._vdrive = None
        self.level = "model_checking"
        self.quick = tier == "quick"

    # ---------------------------------------------------------------- (D)
    def design(self, module, cfg, sample=0, timeout=3000, workers="auto", cfg_edit=None):
        """bounded exhaustive TLC run; returns the list of TRANSITION/BEHAVIOUR json strings printed"""
        cfgpath = spec_files(cfg)[0]
        text = open(cfgpath).read()
        if sample:
            text = re.sub(r"Sample\s*=\s*\d+", "Sample = %d" % sample, text)
        if cfg_edit:
            text = cfg_edit(text)
        name = "gen_" + cfg
        with open(os.path.join(self.sc, name), "w") as f:
            f.write(text)
        r = tlc(self.sc, module, name, workers=workers, timeout=timeout, extra=("-seed", str(seed())))
        if not r.clean:
            raise NoVerdict("design-level model check %s/%s did not pass (a model counterexample is not a verdict about the code):\n%s"
                            % (module, cfg, r.out[-6000:]))
        if r.distinct < 1:
            raise NoVerdict("model check %s/%s explored nothing:\n%s" % (module, cfg, r.out[-2000:]))
        self.states += r.distinct
        self.transitions += r.generated
        self.design_runs.append(dict(module=module, cfg=cfg, distinct_states=r.distinct, transitions=r.generated,
                                     depth=r.depth, wall_s=round(r.wall, 1)))
        log("(D) %s/%s: %d distinct states, %d transitions, depth %d, %.1fs" % (module, cfg, r.distinct, r.generated, r.depth, r.wall))
        out = []
        for l in r.out.splitlines():
            if l.startswith('"TRANSITION ') or l.startswith('"BEHAVIOUR '):
                try:
                    s = json.loads(l)
                    out.append(s.split(" ", 1)[1])
                except Exception:
                    pass  # a torn line (concurrent printing) is dropped, never guessed
        return out

    def adversarial(self, module, cfg, keep, timeout=1800):
        """(G) behaviours on which a deliberately defective variant of the model (the pinned commit's
        behaviour, or a named mutation) violates the property; exhaustive within the cfg's bounds, then sampled"""
        import random
        r = tlc(self.sc, module, cfg, workers="auto", timeout=timeout, extra=("-seed", str(seed())))
        out = []
        for l in r.out.splitlines():
            if l.startswith('"BEHAVIOUR '):
                try:
                    out.append(json.loads(l).split(" ", 1)[1])
                except Exception:
                    pass
        out = sorted(set(out))
        if not out:
            raise NoVerdict("adversarial model %s/%s produced no behaviour:\n%s" % (module, cfg, r.out[-3000:]))
        total = len(out)
        random.Random(seed()).shuffle(out)
        out = out[:keep]
        log("(G) adversarial model %s/%s: %d violating behaviours of the defective model variant, %d kept (%.1fs)" % (module, cfg, total, len(out), r.wall))
        self.design_runs.append(dict(module=module, cfg=cfg, role="adversarial generation (defective model variant)", distinct_states=r.distinct,
                                     transitions=r.generated, violating_behaviours=total, wall_s=round(r.wall, 1)))
        self.notes.setdefault("tlc_generated_behaviours", 0)
        self.notes["tlc_generated_behaviours"] += len(out)
        return out

    def generate(self, module, cfg, num, depth, timeout=1200):
        """(G) seeded TLC -simulate walks; the spec prints every finished behaviour as JSON"""
        r = tlc(self.sc, module, cfg, workers=1, timeout=timeout, simulate="num=%d" % num,
                extra=("-depth", str(depth), "-seed", str(seed())))
        if r.errors and not any("simulation" in e.lower() for e in r.errors):
            raise NoVerdict("TLC simulation %s/%s failed:\n%s" % (module, cfg, r.out[-4000:]))
        out = []
        for l in r.out.splitlines():
            if l.startswith('"BEHAVIOUR '):
                try:
                    out.append(json.loads(l).split(" ", 1)[1])
                except Exception:
                    pass
        out = sorted(set(out))
        log("(G) TLC -simulate %s/%s: %d distinct behaviours in %.1fs" % (module, cfg, len(out), r.wall))
        if not out:
            raise NoVerdict("TLC simulation %s/%s produced no behaviour:\n%s" % (module, cfg, r.out[-3000:]))
        self.notes.setdefault("tlc_generated_behaviours", 0)
        self.notes["tlc_generated_behaviours"] += len(out)
        return out

    # ------------------------------------------------------------ harness
    @property
    def vdrive(self):
        if self._vdrive is None:
            self._vdrive = build_vdrive(self.sc)
        return self._vdrive

    def drive(self, name, args, timeout=3000, inputs=None):
        """run a vdrive sub-command; returns (trace path, [(behaviour, first line, last line, class)], stdout)"""
        trace = os.path.join(self.sc, name + ".ndjson")
        cmd = [self.vdrive] + args + ["--out", trace]
        if inputs is not None:
            inp = os.path.join(self.sc, name + ".in.json")
            with open(inp, "w") as f:
                f.write("\n".join(inputs) + "\n")
            cmd += ["--in", inp]
        t0 = time.time()
        for attempt in (1, 2, 3):
            p = subprocess.run(cmd, stdout=subprocess.PIPE, stderr=subprocess.STDOUT, text=True, timeout=timeout, env=GOENV)
            if p.returncode != 0 and attempt < 3:
                # exit 3: the driver's own watchdog fired (no event for 300 s); exit 2: the driver gave up on an error of
                # the environment (a request the in-process cluster turned away or did not answer in time on a loaded
                # machine, a port taken ...). Neither is a statement about the property: the driver is run again
                log("(G) driver %s stopped with exit %d (attempt %d), running it again:\n%s" % (name, p.returncode, attempt, p.stdout[-1500:]))
                continue
            break
        if p.returncode != 0:
            raise NoVerdict("driver %s failed (%d):\n%s" % (" ".join(cmd), p.returncode, p.stdout[-5000:]))
        beh = [(int(m.group(1)), int(m.group(2)), int(m.group(3)), int(m.group(4)))
               for m in re.finditer(r"BEHAVIOUR (\d+) lines (\d+)-(\d+) class (\d+)", p.stdout)]
        log("(G) driver %s: %d behaviours, %.1fs" % (name, len(beh), time.time() - t0))
        return trace, beh, p.stdout, cmd

    # ---------------------------------------------------------------- (V)
    def validate(self, name, module, trace, beh, cmd, timeout=3000, racy=False):
        """TLC trace validation with the two-pass known-findings protocol and confirmation by isolated re-execution"""
        nlines = sum(1 for _ in open(trace))
        if nlines == 0:
            raise NoVerdict("driver %s produced an empty trace (silent driver)" % name)
        base = os.path.basename(trace)
        res = validate_trace(self.sc, module, base, deviations=(), timeout=timeout)
        kf = known_findings(self.prop)
        if not res["accepted"] and kf:
            res = validate_trace(self.sc, module, base, deviations=[k["deviation"] for k in kf], timeout=timeout)
        if res["accepted"]:
            for k in kf:
                if k["deviation"] in res["used"] and k["deviation"] not in [x["deviation"] for x in self.known]:
                    self.known.append(k)
                    print("KNOWN-FINDING: property=%s %s" % (self.prop, k["what"]), flush=True)
            self.traces += len(beh) if beh else 1
            self.events += nlines
            self._sample(trace)
            log("(V) %s: %d events of %d behaviours accepted by %s in %.1fs" % (name, nlines, len(beh), module, res["wall"]))
            return True
        # ---- rejected: locate, re-execute alone, re-validate
        line = res["line"]
        b = next((x for x in beh if x[1] <= line <= x[2]), None)
        offending = None
        for i, l in enumerate(open(trace), 1):
            if i == line:
                offending = json.loads(l)
        log("(V) %s: trace REJECTED by %s at line %d (behaviour %s): %s" % (name, module, line, b and b[0], json.dumps(short(offending))[:1500]))
        confirmed = 0
        bundle_files = []
        if b is not None and cmd is not None:
            for attempt in range(6 if racy else 2):
                if racy and confirmed >= 1:
                    confirmed = 2
                    break
                t2 = os.path.join(self.sc, "%s.confirm%d.ndjson" % (name, attempt))
                c2 = [x for x in cmd]
                c2[c2.index("--out") + 1] = t2
                c2 += ["--only", str(b[0])]
                p = subprocess.run(c2, stdout=subprocess.PIPE, stderr=subprocess.STDOUT, text=True, env=GOENV)
                if p.returncode != 0:
                    raise NoVerdict("re-execution of behaviour %d failed:\n%s" % (b[0], p.stdout[-3000:]))
                r2 = validate_trace(self.sc, module, os.path.basename(t2), deviations=[k["deviation"] for k in kf], timeout=timeout)
                if not r2["accepted"]:
                    confirmed += 1
                    bundle_files = [t2]
        else:
            confirmed = 2
            bundle_files = [trace]
        if ((racy and confirmed == 0) or (not racy and confirmed < 2)) and cmd is not None:
            # a race may need the load of the whole run, and a defect may live in state that the process carries from one
            # behaviour to the next (a pool, a cache): execute the COMPLETE driver command again (same seed). Racy drivers:
            # one rejection in three runs confirms; deterministic drivers: the run must be rejected twice in a row
            full = 0
            for attempt in range(3 if racy else 2):
                t2 = os.path.join(self.sc, "%s.reconfirm%d.ndjson" % (name, attempt))
                c2 = [x for x in cmd]
                c2[c2.index("--out") + 1] = t2
                p = subprocess.run(c2, stdout=subprocess.PIPE, stderr=subprocess.STDOUT, text=True, env=GOENV)
                if p.returncode != 0:
                    raise NoVerdict("re-execution of driver %s failed:\n%s" % (name, p.stdout[-3000:]))
                r2 = validate_trace(self.sc, module, os.path.basename(t2), deviations=[k["deviation"] for k in kf], timeout=timeout)
                if not r2["accepted"]:
                    full += 1
                    bundle_files = [t2]
                    if racy:
                        break
                elif not racy:
                    break
            if (racy and full >= 1) or (not racy and full >= 2):
                confirmed = 2
        if racy and confirmed >= 1:
            confirmed = 2
        if confirmed < 2:
            raise NoVerdict("rejection of %s line %d did not reproduce when behaviour was re-executed alone (%d/2)" % (name, line, confirmed))
        path = save_replay(self.prop, "%s-b%s" % (name, b[0] if b else "x"), bundle_files,
                           dict(property=self.prop, driver_cmd=cmd, behaviour=b and b[0], rejected_line=line, event=short(offending, 40),
                                trace_module=module, tlc_tail=res["out"][-1500:]))
        self.violations += 1
        print("VIOLATION property=%s replay=%s" % (self.prop, path), flush=True)
        return False

    def _sample(self, trace, k=2):
        if len(self.samples) >= 6:
            return
        with open(trace) as f:
            lines = f.readlines()
        picked = 0
        for i in range(len(lines) // 3, len(lines)):
            e = json.loads(lines[i])
            if e.get("ev") not in ("reset", "index"):
                self.samples.append(short(e))
                picked += 1
                if picked >= k:
                    break

    def gv(self, name, module, args, inputs=None, racy=False):
        """drive + validate; racy: the behaviour involves real concurrency, one reproduction in six re-executions confirms"""
        trace, beh, out, cmd = self.drive(name, args, inputs=inputs)
        self.last_beh = beh
        if "disk" in args and "crash" in args:
            self.notes["crash_runs_enumerated"] = self.notes.get("crash_runs_enumerated", 0) + sum(b[3] for b in beh)
        if inputs is not None and not beh:
            raise NoVerdict("driver %s replayed nothing" % name)
        return self.validate(name, module, trace, beh, cmd, racy=racy)

    def repo_test_traces(self, name, pkgs, timeout=1500, envvar="VERIF_FSM_TRACE", decoder="fsmtrace", module="Trace_Table"):
        """run packages of the REPOSITORY'S OWN test suite with the hooks on and the state-machine trace enabled
        (VERIF_FSM_TRACE), decode the trace (vdrive fsmtrace) and validate it with Trace_Table. Whether the tests
        themselves pass is not looked at: only what their state machines did."""
        raw = os.path.join(self.sc, name + ".raw.ndjson")
        # go must not rewrite /repo's go.mod: work on copies
        shutil.copy(os.path.join(REPO, "go.mod"), os.path.join(self.sc, "repo.go.mod"))
        shutil.copy(os.path.join(REPO, "go.sum"), os.path.join(self.sc, "repo.go.sum"))
        t0 = time.time()
        env = dict(GOENV)
        env[envvar] = raw
        try:
            p = subprocess.run(["go", "test", "-tags", "verif", "-vet=off", "-count=1", "-modfile=" + os.path.join(self.sc, "repo.go.mod")] + pkgs,
                               cwd=REPO, env=env, stdout=subprocess.PIPE, stderr=subprocess.STDOUT, text=True, timeout=timeout)
        except subprocess.TimeoutExpired:
            raise NoVerdict("the repository's tests did not finish in %d s" % timeout)
        if not os.path.exists(raw) or os.path.getsize(raw) == 0:
            raise NoVerdict("the repository's tests produced no state-machine trace:\n" + p.stdout[-3000:])
        log("(G) repository tests %s: %d raw events in %.1fs" % (" ".join(pkgs), sum(1 for _ in open(raw)), time.time() - t0))
        self.notes.setdefault("repository_test_packages_traced", []).extend(pkgs)
        return self.gv(name, module, [decoder, "--in", raw])

    # ------------------------------------------------------------ evidence
    def finish(self):
        cov = dict(states=self.states, transitions=self.transitions, traces_validated_against_impl=self.traces,
                   trace_events_validated=self.events, samples=self.samples or ["(no sample)"],
                   design_runs=self.design_runs, known_findings_seen=[k["deviation"] for k in self.known],
                   exhaustive=False,
                   rule="(D) TLC breadth-first over the bounded configurations listed in design_runs; "
                        "(G)+(V) every behaviour executed on the real code built from /repo and checked event by event by TLC against the trace specification")
        cov.update(self.notes)
        if self.level != "model_checking":
            cov["evaluations"] = int(self.notes.get("evaluations", max(self.events, 1)))
            cov["distinct_nontrivial"] = int(self.notes.get("distinct_nontrivial", max(self.traces, 2)))
        write_evidence(self.prop, self.tier, self.level, cov, time.time() - self.t0, self.violations, self.assumptions)
        log("property %s tier %s: %d states, %d transitions, %d behaviours / %d events validated, %d violations, %.0fs"
            % (self.prop, self.tier, self.states, self.transitions, self.traces, self.events, self.violations, time.time() - self.t0))


# =========================================================================
# Table family: C01 C02 C03 C09 C12
# =========================================================================
TABLE_ASSUME = [
    "Pebble batch commit atomicity and iterator correctness are trusted (the model abstracts Pebble to a sorted map)",
    "values longer than 64 bytes are compared by length + FNV-64a hash",
    "a range answer may be size-cut only if the next pair would take it to >= 1 MiB (CutFloor); where exactly the code cuts is not pinned",
]


@check("C01")
def c01(ctx):
    ctx.assumptions += TABLE_ASSUME
    q = ctx.quick
    trans = ctx.design("MC_TableApply", "MC_TableApply_quick.cfg" if q else "MC_TableApply_thorough.cfg", sample=300 if q else 3000)
    ctx.design("MC_TableApply", "MC_TableReads_quick.cfg" if q else "MC_TableReads_thorough.cfg")
    if not ctx.gv("tlc-transitions", "Trace_Table", ["table", "--mode", "replay"], inputs=trans):
        return
    n, ops = (150, 40) if q else (1500, 60)
    if not ctx.gv("random-histories", "Trace_Table", ["table", "--mode", "hist", "--seed", str(seed()), "--n", str(n), "--ops", str(ops)]):
        return
    # directed witness of the known finding DelPrevSizeCut (range delete with prev_kv over > 4 MiB)
    ctx.gv("big-value-deletes", "Trace_Table", ["table", "--mode", "bigscan", "--mix", "witness", "--seed", str(seed()), "--n", str(3 if q else 20)])


@check("C02")
def c02(ctx):
    ctx.assumptions += TABLE_ASSUME
    ctx.assumptions.append("atomic visibility is validated on real concurrent executions (one writer, three readers): each overlapped read must equal the answer of ONE content that existed between its invocation and its return")
    q = ctx.quick
    trans = ctx.design("MC_TableApply", "MC_TableApply_quick.cfg" if q else "MC_TableApply_thorough.cfg", sample=120 if q else 1500)
    trans = [t for t in trans if '"TXN"' in t]
    if not ctx.gv("tlc-txn-transitions", "Trace_Table", ["table", "--mode", "replay"], inputs=trans):
        return
    n, ops = (120, 40) if q else (1500, 60)
    if not ctx.gv("random-txn-histories", "Trace_Table", ["table", "--mode", "hist", "--mix", "txn", "--seed", str(seed()), "--n", str(n), "--ops", str(ops)]):
        return
    n, ops = (6, 800) if q else (40, 3000)
    if not ctx.gv("concurrent-readers", "Trace_Table", ["table", "--mode", "conc", "--seed", str(seed()), "--n", str(n), "--ops", str(ops)], racy=True):
        return
    # directed witness of the known finding DelPrevSizeCut (a range delete with prev_kv over > 4 MiB reports a part only)
    ctx.gv("big-value-deletes", "Trace_Table", ["table", "--mode", "bigscan", "--mix", "witness", "--seed", str(seed() + 1), "--n", str(1 if q else 6)])


@check("C03")
def c03(ctx):
    ctx.assumptions += TABLE_ASSUME
    ctx.assumptions.append("replicas are real fsm.FSM instances on separate in-memory file systems; snapshot transfer = PrepareSnapshot/SaveSnapshot/RecoverFromSnapshot between instances with independently chosen recovery types")
    ctx.assumptions.append("repository-test traces: packages of the existing suite run with the build tag verif and VERIF_FSM_TRACE set; each state machine instance is followed from the state it shows after Open / RecoverFromSnapshot; an instance is followed until 400 elementary operations (tests that load thousands of pairs are cut there); whether the tests pass is not looked at")
    q = ctx.quick
    if os.environ.get("VERIF_ONLY_REPO_TRACES"):
        # measurement aid (seeded/REPO_TRACES.md): only the traces of the repository's own tests, all traced packages
        ctx.repo_test_traces("repository-test-traces", ["./storage/table/", "./storage/", "./regattaserver/", "./replication/", "./storage/table/fsm/", "./replication/backup/"])
        return
    logs = ctx.design("MC_Converge", "MC_Converge_quick.cfg" if q else "MC_Converge_thorough.cfg", sample=60 if q else 500)
    if not ctx.gv("tlc-logs", "Trace_Table", ["table", "--mode", "convlog", "--seed", str(seed())], inputs=logs):
        return
    n, ops = (120, 12) if q else (3000, 16)
    if not ctx.gv("random-logs", "Trace_Table", ["table", "--mode", "converge", "--seed", str(seed()), "--n", str(n), "--ops", str(ops)]):
        return
    # what the state machines of the REPOSITORY'S OWN TESTS did (engines, servers, replication workers, restores of the
    # existing suite): every Update call, with per-entry results and both indices, replayed in the specification
    pkgs = ["./storage/table/", "./storage/", "./regattaserver/", "./replication/"]
    if not q:
        pkgs += ["./storage/table/fsm/", "./replication/backup/"]
    if not ctx.repo_test_traces("repository-test-traces", pkgs):
        return
    # a replica applies while its readers run (and other tables of the process apply): results and content of every
    # Update must still be what the log says - nothing that concurrent use of process-wide pools can change
    n, ops = (4, 800) if q else (40, 3000)
    if not ctx.gv("apply-under-concurrent-readers", "Trace_Table", ["table", "--mode", "conc", "--seed", str(seed() + 13), "--n", str(n), "--ops", str(ops)], racy=True):
        return
    # directed witness of the known finding DelPrevSizeCut (identical on every replica, but not what the log says)
    ctx.gv("big-value-deletes", "Trace_Table", ["table", "--mode", "bigscan", "--mix", "witness", "--seed", str(seed() + 2), "--n", str(1 if q else 6)])


@check("C09")
def c09(ctx):
    ctx.assumptions += TABLE_ASSUME
    q = ctx.quick
    # reads on every content over 4-5 keys with size cuts enabled (MaxRange = 4) ...
    ctx.design("MC_TableApply", "MC_TableReads_quick.cfg" if q else "MC_TableReads_thorough.cfg")
    # ... and the contents reached by the full command alphabet, sampled for replay with reads
    trans = ctx.design("MC_TableApply", "MC_TableApply_quick.cfg", sample=700 if q else 150)
    if not ctx.gv("tlc-states-reads", "Trace_Table", ["table", "--mode", "replay", "--reads", "12"], inputs=trans):
        return
    n, ops = (100, 50) if q else (1200, 60)
    # read-heavy random histories; every 5th history stores values of 0.7-2 MiB so that size cuts occur
    if not ctx.gv("random-read-histories", "Trace_Table", ["table", "--mode", "hist", "--mix", "read", "--bigevery", "5", "--seed", str(seed()), "--n", str(n), "--ops", str(ops)]):
        return
    # pairs of 0.7-2 MiB: the ~4 MiB message cut falls on first / middle / last pair
    if not ctx.gv("big-value-scans", "Trace_Table", ["table", "--mode", "bigscan", "--seed", str(seed()), "--n", str(10 if q else 80)]):
        return
    n, ops = (4, 100) if q else (30, 200)
    ctx.gv("concurrent-readers", "Trace_Table", ["table", "--mode", "conc", "--seed", str(seed()), "--n", str(n), "--ops", str(ops)], racy=True)


@check("C12")
def c12(ctx):
    ctx.assumptions += TABLE_ASSUME
    ctx.assumptions.append("byte layout of the encoding is not demanded; relations (round trip, injectivity, order, bookkeeping keys above all user keys) are checked on bytes produced by the real key.Encoder; isolation of bookkeeping keys is additionally observed behaviourally (extreme bounds, then index lookups) on the real FSM")
    q = ctx.quick
    ctx.design("MC_KeyEnc", "MC_KeyEnc.cfg")
    if not ctx.gv("codec-pairs", "Trace_KeyEnc", ["keyenc", "--seed", str(seed()), "--n", str(12 if q else 600)]):
        return
    # long keys (1018..1024 bytes, 0xFF heavy), keys spelled like the bookkeeping keys, extreme bounds on the real FSM
    n, ops = (40, 40) if q else (2000, 60)
    ctx.gv("long-key-histories", "Trace_Table", ["table", "--mode", "hist", "--class", "1", "--nobigprev", "--seed", str(seed()), "--n", str(n), "--ops", str(ops)])


@check("C13")
def c13(ctx):
    ctx.assumptions += ["repository-test traces: packages of the existing suite run with the build tag verif and VERIF_KV_TRACE set; every kv.LFSM instance is followed from empty (or from the store it shows after RecoverFromSnapshot); whether the tests pass is not looked at",
                        "glob patterns are restricted to whole-segment '*' (the only form the callers use); listing order is not demanded (compared as sets / bags)",
                        "dragonboat delivers the committed entries in order to LFSM.Update; the driver chooses the apply batches"]
    q = ctx.quick
    logs = ctx.design("MC_MetaKV", "MC_MetaKV_quick.cfg" if q else "MC_MetaKV_thorough.cfg", sample=400 if q else 4000)
    if not ctx.gv("tlc-logs", "Trace_MetaKV", ["metakv", "--mode", "convlog", "--seed", str(seed())], inputs=logs):
        return
    n, ops = (150, 25) if q else (4000, 40)
    if not ctx.gv("random-logs", "Trace_MetaKV", ["metakv", "--mode", "lfsm", "--seed", str(seed()), "--n", str(n), "--ops", str(ops)]):
        return
    n, ops = (5, 40) if q else (40, 120)
    if not ctx.gv("raftstore", "Trace_MetaKV", ["metakv", "--mode", "raft", "--seed", str(seed()), "--n", str(n), "--ops", str(ops)]):
        return
    # what the metadata state machines of the REPOSITORY'S OWN TESTS did (table managers, engines, replication managers of
    # the existing suite): every Update call with its results, replayed in the specification
    pkgs = ["./storage/kv/", "./storage/table/", "./storage/", "./replication/"]
    if not q:
        pkgs += ["./regattaserver/", "./replication/backup/"]
    ctx.repo_test_traces("repository-test-traces", pkgs, envvar="VERIF_KV_TRACE", decoder="kvtrace", module="Trace_MetaKV")


@check("C15")
def c15(ctx):
    ctx.assumptions += ["time is abstracted: a lease is written either with +1h (unexpired for the whole run) or -1h (already expired)",
                        "the managers of all nodes share one real kv.RaftStore on a one-node NodeHost (a local read after an acknowledged write is current); replica lag of the metadata shard is not part of this check",
                        "store calls are released one at a time in the order of a TLC-generated schedule (gated store wrapper); every behaviour ends with a sequential epilogue in which the other nodes list the tables, delete the leased table and ask for the lease while it is held",
                        "batched races: 2-4 managers call LeaseTable at once while the metadata state machine is parked (verif hook) on a preceding proposal, so that their compare-and-set entries are applied in one batch"]
    q = ctx.quick
    # UNBOUNDED: the inductive invariant of the protocol, for any set of nodes and any number of calls, checked by the
    # TLA+ proof system; TLC checks the same invariant on Lease.tla's reachable states (IndInvL) and, in the thorough
    # tier, that LeaseU is not vacuous (3 nodes, 7 store writes)
    n, wall = tlaps(ctx.sc, "LeaseU")
    ctx.notes["tlaps"] = dict(module="spec/proofs/LeaseU.tla", obligations_proved=n, wall_s=round(wall, 1),
                              theorem="Spec => []AtMostOneHolder /\\ [][GrantSafe]_vars for every set of nodes")
    log("(D) tlapm LeaseU: all %d obligations proved in %.1fs" % (n, wall))
    if not q:
        ctx.design("LeaseU", "MC_LeaseU.cfg")
    ctx.design("Lease", "MC_Lease_quick.cfg")
    beh = ctx.generate("Lease", "MC_Lease_gen.cfg", num=1500 if q else 40000, depth=16)
    if not ctx.gv("tlc-schedules", "Trace_Lease", ["lease"], inputs=beh):
        return
    # racing requests whose compare-and-set proposals reach the metadata state machine as ONE apply batch
    if not ctx.gv("batched-races", "Trace_Lease", ["lease", "--races", str(150 if q else 10000), "--seed", str(seed())], racy=True):
        return
    # the lease records live in the metadata state machine: a replica that catches up by a snapshot install must hold
    # exactly the snapshot's records (a returned lease must not come back on one replica) - same stage as in C13 / C14
    n, ops = (40, 25) if q else (1500, 40)
    ctx.gv("metadata-snapshot-installs", "Trace_MetaKV", ["metakv", "--mode", "lfsm", "--seed", str(seed() + 23), "--n", str(n), "--ops", str(ops)])


@check("C14")
def c14(ctx):
    ctx.assumptions += ["racing calls: two table.Manager instances share one real NodeHost and one real kv.RaftStore (a local metadata read after an acknowledged write is current); store calls are released one at a time in the order of a TLC-generated schedule (gated store wrapper); shards really start and data goes through Raft and Pebble on an in-memory FS",
                        "replica lag: three real engines form one cluster; the metadata state machine of one node is parked in the verif hook (kv.LFSM.Update) while tables are created / deleted through another node, then the lagging node is asked; these calls never overlap"]
    q = ctx.quick
    # UNBOUNDED: id allocation (with the retry of fix 4a5ee88 and reads that return ANY value the sequence record ever
    # had) hands out ids in strictly increasing order above the reserved range - any managers, any number of calls (TLAPS)
    n, wall = tlaps(ctx.sc, "CatalogU")
    ctx.notes["tlaps"] = dict(module="spec/proofs/CatalogU.tla", obligations_proved=n, wall_s=round(wall, 1),
                              theorem="Spec => [][every allocated id > every id assigned before, > IdStart]_vars")
    log("(D) tlapm CatalogU: all %d obligations proved in %.1fs" % (n, wall))
    ctx.design("Catalog", "MC_Catalog_quick.cfg" if q else "MC_Catalog_thorough.cfg")
    # calls that never overlap, issued through nodes whose metadata replica lags (every read is a local read), and without lag
    ctx.design("Catalog", "MC_Catalog_lag.cfg")
    ctx.design("Catalog", "MC_Catalog_seq.cfg")
    beh = ctx.generate("Catalog", "MC_Catalog_gen.cfg", num=160 if q else 2500, depth=40)
    if not ctx.gv("tlc-schedules", "Trace_Catalog", ["catalog", "--seed", str(seed())], inputs=beh):
        return
    if not ctx.gv("lagging-replicas", "Trace_Catalog", ["cataloglag", "--seed", str(seed()), "--n", str(4 if q else 60)]):
        return
    # a node that fell behind past a log compaction receives the catalogue as a SNAPSHOT of the metadata state machine:
    # installing it replaces whatever the node held (a table deleted meanwhile must not survive) - random metadata logs
    # with snapshot transfers into non-empty replicas on real kv.LFSM instances
    n, ops = (150, 25) if q else (3000, 40)
    ctx.gv("metadata-snapshot-installs", "Trace_MetaKV", ["metakv", "--mode", "lfsm", "--seed", str(seed() + 21), "--n", str(n), "--ops", str(ops)])


@check("C19")
def c19(ctx):
    ctx.assumptions += ["updates come from a Raft-consistent universe: one leader per term, one membership per config-change index (the universe the property is stated for)",
                        "the memberlist transport is not exercised: gossip = the delegate's real LocalState / MergeRemoteState JSON exchange called directly"]
    q = ctx.quick
    # UNBOUNDED: for any nodes, any Raft-consistent universe and any sequence of deliveries and gossip exchanges every
    # view is THE join of the set of updates that reached it (TLAPS); TLC checks that the relational join of the proof
    # agrees with the CHOOSE-based Join on the bounded universe (JoinAgrees)
    n, wall = tlaps(ctx.sc, "ShardViewU")
    ctx.notes["tlaps"] = dict(module="spec/proofs/ShardViewU.tla", obligations_proved=n, wall_s=round(wall, 1),
                              theorem="Spec => [](\\A n : IsJoin(view[n], delivered[n])), and a set has exactly one join")
    log("(D) tlapm ShardViewU: all %d obligations proved in %.1fs" % (n, wall))
    ctx.design("MC_ShardView", "MC_ShardView_quick.cfg" if q else "MC_ShardView_thorough.cfg")
    beh = ctx.generate("MC_ShardView", "MC_ShardView_gen.cfg", num=600 if q else 40000, depth=8)
    if not ctx.gv("tlc-deliveries", "Trace_ShardView", ["shardview", "--seed", str(seed())], inputs=beh):
        return
    n, ops = (60, 30) if q else (4000, 60)
    ctx.gv("random-deliveries", "Trace_ShardView", ["shardview", "--seed", str(seed()), "--n", str(n), "--ops", str(ops)])


@check("C11")
def c11(ctx):
    ctx.assumptions += ["sweeps are triggered by the driver through the verif hook instead of the 1 s ticker; real-time bounds are not claimed",
                        "a loop that does not answer Len within 2 s counts as wedged",
                        "an error answer is demanded at the latest two sweeps after the cancellation"]
    q = ctx.quick
    ctx.design("NotifQueue", "MC_NotifQueue_quick.cfg" if q else "MC_NotifQueue_thorough.cfg")
    beh = ctx.generate("NotifQueue", "MC_NotifQueue_gen.cfg", num=1500 if q else 30000, depth=20)
    # the very first Add for a table against concurrent Len polls of that table (what the replication worker's statistics
    # do every 50 ms): 22 never-seen tables per round, 150 rounds per behaviour; every waiter must be answered by the Notify
    if not ctx.gv("first-add-against-len", "Trace_NotifQueue", ["queue", "--seed", str(seed()), "--n", str(12 if q else 400), "--firstadd", "150"], racy=True):
        return
    # (the queue runs its own goroutine: a rejection is confirmed by one reproduction in six re-executions or three full runs)
    if not ctx.gv("tlc-schedules", "Trace_NotifQueue", ["queue"], inputs=beh, racy=True):
        return
    # long random schedules (20 waiters, revisions 0..11, 60 steps) and the real ForwardingKVServer over the real queue
    if not ctx.gv("random-schedules", "Trace_NotifQueue", ["queue", "--seed", str(seed()), "--n", str(300 if q else 5000)], racy=True):
        return
    # the apply side: the table state machine tells the applied-index listener (which feeds the queue), once per Update,
    # the leader index the batch recorded - random logs with leader indices, reopen and snapshot transfers on real FSMs
    ctx.gv("apply-notifications", "Trace_Table", ["table", "--mode", "converge", "--nobigprev", "--seed", str(seed() + 3), "--n", str(150 if q else 2000), "--ops", "14"])


@check("C06")
def c06(ctx):
    ctx.assumptions += ["the Raft log under the readers is a harness implementation of dragonboat's ReadonlyLogReader contract (GetRange = (marker+1, last); Entries = longest prefix within maxSize, at least one entry), transcribed from internal/logdb/logreader.go",
                        "harness-level schedules: cache invalidation on compaction is applied atomically with the compaction; engine-level runs: the driver waits after a compaction until the LogCompacted event has emptied the cache (a request for the last compacted index is answered 'use snapshot', or 3 s passed) - answers given from the cache inside that window are not judged",
                        "where a size limit cuts an answer is not pinned; only contiguity, labels, bounds, the special answers and 'at least one entry' are"]
    q = ctx.quick
    ctx.design("MC_LogReader", "MC_LogReader_quick.cfg" if q else "MC_LogReader_thorough.cfg")
    beh = ctx.generate("MC_LogReader", "MC_LogReader_gen.cfg", num=800 if q else 25000, depth=16)
    if not ctx.gv("tlc-schedules", "Trace_LogReader", ["logreader", "--seed", str(seed())], inputs=beh):
        return
    # adversarial schedules: every behaviour (<= 7 steps, 2 sessions) on which the model of the PINNED commit
    # (Mode = asis: fixSize may return nothing, cache.get may return nothing for an overlapping range) breaks the property
    adv = ctx.adversarial("MC_LogReader", "MC_LogReader_adv.cfg", keep=1500 if q else 20000)
    if not ctx.gv("tlc-adversarial", "Trace_LogReader", ["logreader", "--seed", str(seed())], inputs=adv):
        return
    # end to end: a real engine (real Raft log and compaction, LogCompacted through the engine's event dispatcher, cache
    # sizes 0/4/64/1000, message limits) behind the real LogServer; sequential, so every call's applied index and
    # compaction point are exact; some entries carry a leader index of their own inside the command
    ctx.gv("engine-log-streams", "Trace_LogReader", ["logengine", "--seed", str(seed()), "--n", str(6 if q else 250)])


@check("C07")
def c07(ctx):
    ctx.assumptions += ["restore runs on a one-node in-process cluster (real NodeHost, real Raft proposals, real FSM on an in-memory FS)",
                        "backup files: real backup.Backup client, real Cluster and Maintenance services on a loopback gRPC listener, files in a temporary directory; damage = one byte flipped / truncated / byte appended / file of another table / checksum in the manifest changed",
                        "record sizes are model units (1..3) times 200/1000/5000 bytes with MaxInMemLogSize = 2 * threshold units, so the threshold falls on every record position",
                        "settings in which one record exceeds the whole MaxInMemLogSize are excluded (threshold of 1 unit): dragonboat refuses such proposals for ever, for ordinary writes too"]
    q = ctx.quick
    ctx.design("MC_Restore", "MC_Restore_quick.cfg" if q else "MC_Restore_thorough.cfg")
    # every (record sizes, threshold) case on which the model of the pinned commit loses / adds a pair or the index
    adv = ctx.adversarial("MC_Restore", "MC_Restore_adv.cfg", keep=100000)
    # a single record larger than the whole MaxInMemLogSize cannot be proposed at all (dragonboat rate-limits it for ever,
    # ordinary writes included): such settings are outside the property; keep threshold 0 (unlimited) and >= 2 units
    adv = [a for a in adv if json.loads(a)["th"] != 1][:60 if q else 1200]
    # point in time under a back-to-back writer at the state machine: 60 command snapshots per behaviour
    if not ctx.gv("snapshots-under-writes", "Trace_Table", ["table", "--mode", "snapconc", "--nobigprev", "--seed", str(seed()), "--n", str(8 if q else 80), "--ops", "300"], racy=True):
        return
    if not ctx.gv("tlc-streams", "Trace_Restore", ["restore", "--seed", str(seed()), "--pit", str(6 if q else 60)], inputs=adv, racy=True):
        return
    # backup files: the real backup.Backup client against the real Cluster / Maintenance services: restore into changed
    # tables, into another cluster, after a file or the manifest was damaged, and of a backup taken under writes
    ctx.gv("backup-files", "Trace_Restore", ["backup", "--seed", str(seed()), "--n", str(8 if q else 80)], racy=True)


DISK_ASSUME = ["fault model exactly as in C04: file data durable up to the file's last sync, directory entries up to the directory's last sync, base data directory durable beforehand (pebble strict MemFS + operation counter)",
               "Pebble's own flush / manifest / ingest atomicity is trusted in the TLA+ model (a DB dir = volatile + durable index) but exercised for real by the crash enumeration",
               "the crash falls after the k-th mutating file-system operation of the scenario, k = 0..N (every operation boundary, Pebble's internal ones included)"]


@check("C04")
def c04(ctx):
    ctx.assumptions += DISK_ASSUME + TABLE_ASSUME
    q = ctx.quick
    ctx.design("TableDisk", "MC_TableDisk_quick.cfg" if q else "MC_TableDisk_thorough.cfg")
    n = 25 if q else 800
    if not ctx.gv("crash-points", "Trace_Table", ["disk", "--mode", "crash", "--seed", str(seed()), "--n", str(n)]):
        return
    # repeated crashes on the real code: the process that recovers from the first crash (Open, re-apply, Sync) crashes
    # again at a random one of ITS file-system operations; the second recovery is judged by the same rule with the
    # apply-batch boundaries and completed syncs of both lives
    if not ctx.gv("repeated-crashes", "Trace_Table", ["disk", "--mode", "crash2", "--seed", str(seed() + 3), "--n", str(12 if q else 500)]):
        return
    # an apply batch of 27 MiB whose entries read inside the batch: memtable rotations / flushes fall inside FSM.Update
    if not ctx.gv("crash-points-big-batch", "Trace_Table", ["disk", "--mode", "bigbatch", "--seed", str(seed()), "--n", "1", "--stride", "2" if q else "1"]):
        return
    # "data + index in one batch" observed without a crash: command snapshots (index + content of one Pebble snapshot)
    # taken while a writer applies entries that mix blind writes and in-batch reads
    ctx.gv("apply-atomicity-under-snapshots", "Trace_Table", ["table", "--mode", "snapconc", "--nobigprev", "--seed", str(seed()), "--n", str(6 if q else 60), "--ops", "300"], racy=True)


@check("C08")
def c08(ctx):
    ctx.assumptions += DISK_ASSUME + TABLE_ASSUME
    q = ctx.quick
    ctx.design("TableDisk", "MC_TableDisk_quick.cfg" if q else "MC_TableDisk_thorough.cfg")
    ctx.design("MC_Converge", "MC_Converge_quick.cfg")
    # faithful + point-in-time + cross-format: snapshot transfers between real replicas with writes between prepare and save
    n, ops = (120, 14) if q else (6000, 18)
    if not ctx.gv("snapshot-transfers", "Trace_Table", ["table", "--mode", "converge", "--nobigprev", "--seed", str(seed() + 17), "--n", str(n), "--ops", str(ops)]):
        return
    # interrupted installs: stop signal at many byte positions of both formats; lazy read across an install (child process)
    if not ctx.gv("stopped-installs", "Trace_Table", ["disk", "--mode", "install", "--seed", str(seed()), "--n", str(8 if q else 250)]):
        return
    # crashes at every file-system operation of scenarios that contain a snapshot install
    ctx.gv("crash-points", "Trace_Table", ["disk", "--mode", "crash", "--seed", str(seed() + 5), "--n", str(15 if q else 400)])


@check("C10")
def c10(ctx):
    ctx.assumptions += ["Raft safety of dragonboat is assumed (Group.tla is the contract regatta relies on); the three engines run in one process on loopback TCP with in-memory file systems",
                        "one replica (the shard's Raft leader in every other behaviour, a follower otherwise) is made to lag by parking its FSM.Update in the verif hook for 5-45 ms at a time; writes are acknowledged through the other two nodes, reads are issued against the lagging one meanwhile, also by the client whose write was just acknowledged; the other replicas apply slowly now and then so that apply batches of several entries form",
                        "call order is taken from one process-wide sequence counter read at invocation and at return"]
    q = ctx.quick
    ctx.design("Group", "MC_Group_quick.cfg" if q else "MC_Group_thorough.cfg")
    n, ops = (8, 30) if q else (300, 60)
    if not ctx.gv("three-node-histories", "Trace_Group", ["group", "--seed", str(seed()), "--n", str(n), "--ops", str(ops)], racy=True):
        return
    # "a state at ONE log position" at the state machine that serves the reads: a back-to-back writer (values alternating
    # around 100, one 21 MiB transaction) against readers of every kind - what the engine-level clients are too slow to hit
    n, ops = (4, 800) if q else (40, 3000)
    ctx.gv("reads-at-one-position", "Trace_Table", ["table", "--mode", "conc", "--seed", str(seed() + 9), "--n", str(n), "--ops", str(ops)], racy=True)


@check("C05")
def c05(ctx):
    ctx.assumptions += ["leader and follower are one-node clusters in this process; the replication services run on a real gRPC loopback listener; timers are shortened (poll 15 ms, lease 10 ms, reconcile 40 ms)",
                        "the follower is sampled as (recorded leader index, full content, recorded leader index); content is compared with the leader content at that index when the index did not move during the read",
                        "after a follower engine restart the table manager's reconcile pass is triggered through the verif export instead of waiting 30 s",
                        "behaviour classes: recovery from the snapshot of a fat table under back-to-back leader writes; follower state machine stalled (verif hook) for longer than the log RPC timeout, so that proposals time out although they are committed; a table deleted and created again on the leader, once slowly and once while the follower's metadata request is being answered (known finding RecreateNotNoticed); random histories with log and snapshot streams that break after 0-2 messages",
                        "every history contains once-marker transactions (first application creates u<n>, any further one d<n>): a leader command that takes effect twice on the follower stays visible for ever"]
    q = ctx.quick
    # UNBOUNDED: with the state machine rule of fix 4128a55 every leader command in (base, lidx] took effect exactly once
    # on the follower and the recorded index never decreases - for any log, any cuts, any number of timeouts, repeated,
    # late or lost proposals and snapshot recoveries (TLAPS)
    n, wall = tlaps(ctx.sc, "ReplicationU")
    ctx.notes["tlaps"] = dict(module="spec/proofs/ReplicationU.tla", obligations_proved=n, wall_s=round(wall, 1),
                              theorem="Spec => []ExactlyOnce /\\ [][lidx' >= lidx]_vars")
    log("(D) tlapm ReplicationU: all %d obligations proved in %.1fs" % (n, wall))
    ctx.design("Replication", "MC_Replication_quick.cfg" if q else "MC_Replication_thorough.cfg")
    n, ops = (10, 60) if q else (150, 120)
    if not ctx.gv("leader-follower-histories", "Trace_Repl", ["repl", "--seed", str(seed()), "--n", str(n), "--ops", str(ops)], racy=True):
        return
    # "exactly once" when copies of a sequence reach the follower's state machine in ONE apply batch (two proposals
    # committed in one Raft step - what the one-node follower above does not produce): TLC logs with worker-built
    # sequences, cut into batches in every way, on real FSMs
    logs = ctx.design("MC_Converge", "MC_Converge_quick.cfg", sample=60 if q else 20)
    logs = [x for x in logs if '"sli"' in x]
    ctx.gv("sequence-copies-in-one-batch", "Trace_Table", ["table", "--mode", "convlog", "--seed", str(seed())], inputs=logs)


@check("C16")
def c16(ctx):
    ctx.level = "exploration"
    ctx.assumptions += ["TLC enumerates an abstract space of request CLASSES (table empty/unknown/known, key empty/ok/1024/1025 bytes, value ok/2 MiB/2 MiB+1, limit, flags, revision filters, nested transaction operations, leader/follower tables API); one concrete request per class is sent. Fidelity to all malformed wire inputs is not claimed: 300-3000 mutated wire messages are sampled",
                        "the server is built by the real createAPIServer wiring (verif export) around a one-node engine and runs in a child process; 'state unchanged' = full range of the table and the table list before/after",
                        "for oversized fields and nested violations any non-OK status is admissible; the outcome of an invalid operation in the branch that is not executed is left open"]
    q = ctx.quick
    cases = ctx.design("MC_Validate", "MC_Validate.cfg", workers=1)
    ctx.notes["request_classes"] = len(cases)
    ctx.notes["distinct_nontrivial"] = len(set(cases))
    ctx.notes["rule"] = "one case per request class of MC_Validate (all distinct by construction) plus seeded mutated wire messages; non-trivial = every class exercises at least one validation branch or the success path"
    ctx.gv("request-classes", "Trace_Validate", ["api", "--seed", str(seed()), "--fuzz", str(300 if q else 30000)], inputs=cases)


@check("C17")
def c17(ctx):
    ctx.level = "exploration"
    ctx.assumptions += ["decision-table model: TLC enumerates abstract classes of presented credentials / client certificates and server options; one concrete instance per class (tokens of 56 characters; certificates generated with crypto/x509, ECDSA P-256). x509 chain building itself is trusted",
                        "token cases run against servers built by the real createAPIServer wiring with the services registered as cmd/leader.go and cmd/follower.go do, in child processes; certificate cases are real TLS 1.2 / 1.3 handshakes over loopback TCP against security.TLSInfo.ServerConfig()",
                        "a lower-case 'bearer' scheme with the right token and client-cert-auth without a trusted CA are left open (not pinned by the property)"]
    cases = ctx.design("MC_Access", "MC_Access.cfg", workers=1)
    ctx.notes["distinct_nontrivial"] = len(set(cases))
    ctx.notes["rule"] = "one case per class of MC_Access: (service, method incl. server- and client-streaming, token configured?, presented credential, leader/follower) and (server TLS options, client certificate)"
    ctx.gv("access-cases", "Trace_Access", ["access"], inputs=cases, racy=True)


@check("C18")
def c18(ctx):
    ctx.level = "exploration"
    ctx.assumptions += ["value fidelity of the protobuf codec and of the compression libraries is encode/decode fidelity of library code: it is only SAMPLED here (message shapes incl. every oneof arm, empty-vs-absent optional fields, recycled objects; payload classes 0 B..300 KB); the TLA+ specification covers the protocol part: record framing, arbitrary chunk cuts, reassembly",
                        "records and messages are compared by (length, FNV-64a)"]
    q = ctx.quick
    ctx.design("Stream", "MC_Stream.cfg")
    n = 12 if q else 400
    ctx.notes["rule"] = "framing behaviours: 1-400 records of 0 B..300 KB (sizes around the 64 KiB snappy block), file read-back and real gRPC shipping with chunk limits 1..1 MiB and each registered compressor; codec: 12 message shapes x 3 rounds + 200 recycled-object marshals; compressors: 32 goroutines x rounds per compressor"
    if not ctx.gv("framing-codec-compressors", "Trace_Stream", ["stream", "--seed", str(seed()), "--n", str(n), "--rounds", str(60 if q else 1500)], racy=True):
        return
    # commands as they leave the leader on the replication stream (real engine, real LogServer): each IS the logged one
    # (type, key, presence and value of the range end, own label) - also after range deletes went through the same objects
    ctx.gv("replicated-commands", "Trace_LogReader", ["logengine", "--seed", str(seed() + 11), "--n", str(3 if q else 40)])
    ctx.notes["distinct_nontrivial"] = max(2, ctx.events)
