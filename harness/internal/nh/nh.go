// Package nh starts real dragonboat NodeHosts on in-memory file systems.
package nh

import (
	"fmt"
	"net"

	"github.com/lni/dragonboat/v4"
	"github.com/lni/dragonboat/v4/config"
	"github.com/lni/dragonboat/v4/logger"
	"github.com/lni/vfs"
)

func init() {
	logger.GetLogger("raft").SetLevel(logger.ERROR)
	logger.GetLogger("rsm").SetLevel(logger.ERROR)
	logger.GetLogger("transport").SetLevel(logger.ERROR)
	logger.GetLogger("dragonboat").SetLevel(logger.ERROR)
	logger.GetLogger("logdb").SetLevel(logger.ERROR)
	logger.GetLogger("grpc").SetLevel(logger.ERROR)
	logger.GetLogger("raftpb").SetLevel(logger.ERROR)
	logger.GetLogger("config").SetLevel(logger.ERROR)
	logger.GetLogger("tan").SetLevel(logger.ERROR)
	logger.GetLogger("registry").SetLevel(logger.ERROR)
	logger.GetLogger("settings").SetLevel(logger.ERROR)
	logger.GetLogger("utils").SetLevel(logger.ERROR)
}

// FreeAddr returns a free loopback address.
func FreeAddr() string {
	l, err := net.Listen("tcp", "127.0.0.1:0")
	if err != nil {
		panic(err)
	}
	defer l.Close()
	return l.Addr().String()
}

// New starts a NodeHost on a fresh in-memory FS (or on fs when given).
func New(addr string, fs vfs.FS) (*dragonboat.NodeHost, error) {
	if fs == nil {
		fs = vfs.NewMem()
	}
	nhc := config.NodeHostConfig{
		WALDir:         "wal",
		NodeHostDir:    "dragonboat",
		RTTMillisecond: 1,
		RaftAddress:    addr,
		EnableMetrics:  false,
	}
	if err := nhc.Prepare(); err != nil {
		return nil, err
	}
	nhc.Expert.FS = fs
	nhc.Expert.Engine.ExecShards = 1
	nhc.Expert.LogDB.Shards = 1
	nh, err := dragonboat.NewNodeHost(nhc)
	if err != nil {
		return nil, fmt.Errorf("nodehost: %w", err)
	}
	return nh, nil
}

// NewAuto picks a free loopback port and starts a NodeHost on it, retrying when the port was taken
// in the meantime by another process (parallel test suites on the same machine).
func NewAuto(fs vfs.FS) (*dragonboat.NodeHost, string, error) {
	var last error
	for i := 0; i < 8; i++ {
		addr := FreeAddr()
		h, err := New(addr, fs)
		if err == nil {
			return h, addr, nil
		}
		last = err
	}
	return nil, "", last
}
