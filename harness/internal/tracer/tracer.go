// Package tracer writes ndjson traces, one JSON object per line.
package tracer

import (
	"bufio"
	"encoding/json"
	"os"
	"sync"
	"sync/atomic"
	"time"
)

// LastEmit is the unix-nano time of the last emitted event (watchdog: a driver that emits nothing for
// a long time is hung; that is a machinery problem, never a verdict).
var LastEmit atomic.Int64

func init() { LastEmit.Store(time.Now().UnixNano()) }

type T struct {
	mu sync.Mutex
	f  *os.File
	w  *bufio.Writer
	n  int
}

func New(path string) (*T, error) {
	f, err := os.Create(path)
	if err != nil {
		return nil, err
	}
	return &T{f: f, w: bufio.NewWriterSize(f, 1<<20)}, nil
}

// Emit appends one event. Returns the 1-based line number of the event.
func (t *T) Emit(ev map[string]any) int {
	b, err := json.Marshal(ev)
	if err != nil {
		panic(err)
	}
	LastEmit.Store(time.Now().UnixNano())
	t.mu.Lock()
	defer t.mu.Unlock()
	t.w.Write(b)
	t.w.WriteByte('\n')
	t.n++
	return t.n
}

func (t *T) Lines() int {
	t.mu.Lock()
	defer t.mu.Unlock()
	return t.n
}

func (t *T) Close() error {
	t.mu.Lock()
	defer t.mu.Unlock()
	if err := t.w.Flush(); err != nil {
		return err
	}
	return t.f.Close()
}
