// Package gen generates random table commands / reads over a small per-history
// key pool. It generates inputs only; expected results come from TLC.
package gen

import (
	"bytes"
	"math/rand"

	m "verif/harness/internal/model"
)

type Pool struct {
	R    *rand.Rand
	Keys [][]byte
	Vals [][]byte
	// Big: history contains values above the token threshold => no GREATER/LESS compares
	Big bool
	// NoBigPrev: keep the known prev_kv size-cut finding (a defect against C01) out of histories with big values - for
	// checks of OTHER properties, which would otherwise stumble over it
	NoBigPrev bool
	// Mix: "" default, "txn" transaction heavy, "read" few writes
	Mix string
}

var edgeKeys = [][]byte{
	{0}, {0, 0}, {0, 255}, {1}, {255}, {255, 255}, {255, 0}, {254}, {254, 255},
	{'a'}, {'a', 0}, {'a', 255}, {'a', 'b'}, {'b'}, {'a', 0, 0}, {'a', 255, 255},
	[]byte("index"), []byte("leader_index"), append([]byte{2}, []byte("index")...),
	{1, 0, 0, 0, 1, 'a'}, {1, 0, 0, 0, 2}, {2},
}

func rep(b byte, n int) []byte { return bytes.Repeat([]byte{b}, n) }

func longKeys(r *rand.Rand) [][]byte {
	rnd := make([]byte, 1024)
	r.Read(rnd)
	k1018 := rep(255, 1018)
	l := [][]byte{
		rep(255, 1019), rep(255, 1020), rep(255, 1024), rep(255, 1018), rnd,
		append(append([]byte{}, k1018...), 254), rep(0, 1019), rep(0, 1024),
		append(rep(255, 1019), 0),
	}
	return l
}

// NewPool picks n distinct keys. class: 0 edge/short, 1 with long keys, 2 big values
// NoBigPrev (process-wide, set from the driver's command line) has the effect of Pool.NoBigPrev for every pool
var NoBigPrev bool

func NewPool(r *rand.Rand, n int, class int) *Pool {
	p := &Pool{R: r, Big: class == 2}
	alpha := []byte{0, 1, 'a', 'b', 254, 255}
	seen := map[string]bool{}
	add := func(k []byte) {
		if len(k) == 0 || seen[string(k)] {
			return
		}
		seen[string(k)] = true
		p.Keys = append(p.Keys, k)
	}
	var longs [][]byte
	if class == 1 {
		longs = longKeys(r)
	}
	for len(p.Keys) < n {
		switch x := r.Intn(10); {
		case x < 4:
			add(edgeKeys[r.Intn(len(edgeKeys))])
		case x < 6 && class == 1:
			add(longs[r.Intn(len(longs))])
		case x < 8:
			// extend an existing key (prefix relations)
			if len(p.Keys) > 0 {
				b := p.Keys[r.Intn(len(p.Keys))]
				if len(b) < 1000 {
					add(append(append([]byte{}, b...), alpha[r.Intn(len(alpha))]))
				}
			}
		default:
			k := make([]byte, 1+r.Intn(4))
			for i := range k {
				if r.Intn(3) == 0 {
					k[i] = byte(r.Intn(256))
				} else {
					k[i] = alpha[r.Intn(len(alpha))]
				}
			}
			add(k)
		}
	}
	p.Vals = [][]byte{{}, {0}, {255}, {'v'}, {'v', 0}, {'v', 'w'}, {'w'}, rep('x', 64)}
	if p.Big {
		p.Vals = append(p.Vals, rep('x', 65), rep('y', 300))
	}
	for i := 0; i < 3; i++ {
		v := make([]byte, 1+r.Intn(12))
		r.Read(v)
		p.Vals = append(p.Vals, v)
	}
	return p
}

func (p *Pool) Key() []byte { return p.Keys[p.R.Intn(len(p.Keys))] }

// AnyKey : a pool key or, sometimes, a neighbour that is not in the pool
func (p *Pool) AnyKey() []byte {
	k := p.Key()
	switch p.R.Intn(8) {
	case 0:
		return append(append([]byte{}, k...), 0)
	case 1:
		if len(k) > 1 {
			return k[:len(k)-1]
		}
	}
	return k
}

func (p *Pool) Val() []byte {
	if p.Big && p.R.Intn(3) == 0 {
		sizes := []int{1 << 20, 2 << 20, (2 << 20) - 1, 700 * 1024, 1500 * 1024}
		v := make([]byte, sizes[p.R.Intn(len(sizes))])
		// cheap fill, distinct per call
		seed := byte(p.R.Intn(256))
		for i := range v {
			v[i] = seed + byte(i)
		}
		return v
	}
	return p.Vals[p.R.Intn(len(p.Vals))]
}

// End returns a range end. top: an empty-but-present end is possible (top level DELETE only).
func (p *Pool) End(lo []byte, top bool) m.End {
	switch x := p.R.Intn(20); {
	case x < 5:
		return m.End{}
	case x < 9:
		return m.End{Has: true, B: []byte{0}} // wildcard
	case x < 10 && top:
		return m.End{Has: true, B: []byte{}}
	case x < 12:
		return m.End{Has: true, B: append(append([]byte{}, lo...), 0)} // [k, k\0) = exactly k
	case x < 13:
		return m.End{Has: true, B: append([]byte{}, lo...)} // empty range
	default:
		return m.End{Has: true, B: p.AnyKey()} // anything, incl. inverted
	}
}

func (p *Pool) ReadOp() m.Op {
	k := p.AnyKey()
	o := m.Op{T: "range", K: k, End: p.End(k, false)}
	if p.R.Intn(3) == 0 {
		o.Limit = int64(p.R.Intn(len(p.Keys) + 2))
	}
	switch p.R.Intn(6) {
	case 0:
		o.KeysOnly = true
	case 1:
		o.CountOnly = true
	}
	return o
}

func (p *Pool) PutOp() m.Op {
	return m.Op{T: "put", K: p.Key(), V: p.Val(), Prev: p.R.Intn(2) == 0}
}

func (p *Pool) DelOp(top bool) m.Op {
	k := p.AnyKey()
	if p.Big && (p.Mix == "read" || p.NoBigPrev || NoBigPrev) {
		// C09 histories are about reads: keep the known prev_kv size-cut finding (C01) out of them
		return m.Op{T: "del", K: k, End: p.End(k, top), Count: p.R.Intn(2) == 0}
	}
	return m.Op{T: "del", K: k, End: p.End(k, top), Prev: p.R.Intn(2) == 0, Count: p.R.Intn(2) == 0}
}

func (p *Pool) TxnOp() m.Op {
	switch x := p.R.Intn(10); {
	case x < 3:
		return p.ReadOp()
	case x < 7:
		return p.PutOp()
	case x < 9:
		return p.DelOp(false)
	default:
		return m.Op{T: "none"}
	}
}

func (p *Pool) Compare() m.Cmp {
	k := p.AnyKey()
	c := m.Cmp{K: k, End: p.End(k, false), Res: "EQUAL"}
	if c.End.Has && len(c.End.B) == 0 {
		c.End = m.End{}
	}
	if p.R.Intn(4) != 0 {
		c.HasVal = true
		c.Val = p.Vals[p.R.Intn(len(p.Vals))]
		res := []string{"EQUAL", "NOT_EQUAL", "GREATER", "LESS"}
		if p.Big {
			c.Res = res[p.R.Intn(2)]
		} else {
			c.Res = res[p.R.Intn(4)]
		}
	} else {
		res := []string{"EQUAL", "NOT_EQUAL", "GREATER", "LESS"}
		c.Res = res[p.R.Intn(4)]
	}
	return c
}

func (p *Pool) Txn(readonly bool) m.Cmd {
	c := m.Cmd{T: "TXN"}
	for i, n := 0, p.R.Intn(3); i < n; i++ {
		c.Cmp = append(c.Cmp, p.Compare())
	}
	for i, n := 0, p.R.Intn(4); i < n; i++ {
		if readonly {
			c.Succ = append(c.Succ, p.ReadOp())
		} else {
			c.Succ = append(c.Succ, p.TxnOp())
		}
	}
	for i, n := 0, p.R.Intn(3); i < n; i++ {
		if readonly {
			c.Fail = append(c.Fail, p.ReadOp())
		} else {
			c.Fail = append(c.Fail, p.TxnOp())
		}
	}
	return c
}

// Cmd returns a random command; depth limits SEQUENCE nesting.
func (p *Pool) Cmd(depth int) m.Cmd {
	if p.Mix == "txn" && p.R.Intn(10) < 6 {
		return p.Txn(false)
	}
	switch x := p.R.Intn(20); {
	case x < 6:
		return m.Cmd{T: "PUT", K: p.Key(), V: p.Val(), Prev: p.R.Intn(2) == 0}
	case x < 10:
		o := p.DelOp(true)
		return m.Cmd{T: "DEL", K: o.K, End: o.End, Prev: o.Prev, Count: o.Count}
	case x < 12:
		c := m.Cmd{T: "PUTB"}
		for i, n := 0, p.R.Intn(4); i < n; i++ {
			c.KVs = append(c.KVs, m.KV{K: p.Key(), V: p.Val()})
		}
		return c
	case x < 13:
		c := m.Cmd{T: "DELB"}
		for i, n := 0, p.R.Intn(4); i < n; i++ {
			c.Ks = append(c.Ks, p.AnyKey())
		}
		return c
	case x < 17:
		return p.Txn(false)
	case x < 19 && depth > 0:
		c := m.Cmd{T: "SEQ"}
		for i, n := 0, p.R.Intn(4); i < n; i++ {
			c.Cmds = append(c.Cmds, p.Cmd(depth-1))
		}
		if p.R.Intn(2) == 0 {
			// as a replication worker builds it: the commands carry increasing leader indices
			li := p.R.Intn(50)
			for i := range c.Cmds {
				li += 1 + p.R.Intn(3)
				c.Cmds[i].Sli = li + 1
			}
		}
		return c
	default:
		return m.Cmd{T: "DUMMY"}
	}
}
