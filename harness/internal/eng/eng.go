// Package eng starts real storage.Engine instances (dragonboat NodeHost + metadata store + table manager +
// gossip) in this process, on in-memory file systems and loopback ports.
package eng

import (
	"context"
	"fmt"
	"time"

	pvfs "github.com/cockroachdb/pebble/vfs"
	"github.com/jamf/regatta/storage"
	"github.com/lni/vfs"
	"go.uber.org/zap"

	"verif/harness/internal/nh"
)

type Cluster struct {
	Engines []*storage.Engine
}

// New starts an n-node cluster (one Raft cluster: every table has a replica on every node).
func New(n int, logCache int, mutate func(i int, c *storage.Config)) (*Cluster, error) {
	for attempt := 0; ; attempt++ {
		c, err := try(n, logCache, mutate)
		if err == nil {
			return c, nil
		}
		if attempt >= 4 {
			return nil, err
		}
	}
}

func try(n int, logCache int, mutate func(i int, c *storage.Config)) (*Cluster, error) {
	raft := make([]string, n)
	gossip := make([]string, n)
	members := map[uint64]string{}
	for i := 0; i < n; i++ {
		raft[i] = nh.FreeAddr()
		gossip[i] = nh.FreeAddr()
		members[uint64(i+1)] = raft[i]
	}
	c := &Cluster{}
	// several nodes: an election timeout of 100 ms, so that a loaded machine (delayed heartbeats) does not depose the
	// leader in the middle of a behaviour; one node: 20 ms (it elects itself)
	election := uint64(10)
	if n > 1 {
		election = 50
	}
	for i := 0; i < n; i++ {
		cfg := storage.Config{
			NodeID:         uint64(i + 1),
			InitialMembers: members,
			WALDir:         "/wal",
			NodeHostDir:    "/nh",
			RTTMillisecond: 2,
			RaftAddress:    raft[i],
			Gossip:         storage.GossipConfig{BindAddress: gossip[i], AdvertiseAddress: gossip[i], InitialMembers: gossip, ClusterName: "verif", NodeName: fmt.Sprintf("n%d", i+1)},
			Table: storage.TableConfig{FS: pvfs.NewMem(), DataDir: "/tables", TableCacheSize: 256, BlockCacheSize: 1 << 20,
				ElectionRTT: election, HeartbeatRTT: 1, SnapshotEntries: 100000, CompactionOverhead: 5000, MaxInMemLogSize: 6 * 1024 * 1024},
			Meta:         storage.MetaConfig{ElectionRTT: election, HeartbeatRTT: 1, SnapshotEntries: 100000, CompactionOverhead: 5000, MaxInMemLogSize: 1024 * 1024},
			FS:           vfs.NewMem(),
			Log:          zap.NewNop().Sugar(),
			LogCacheSize: logCache,
		}
		if mutate != nil {
			mutate(i, &cfg)
		}
		e, err := storage.New(cfg)
		if err != nil {
			c.Close()
			return nil, err
		}
		c.Engines = append(c.Engines, e)
	}
	for _, e := range c.Engines {
		if err := e.Start(); err != nil {
			c.Close()
			return nil, err
		}
	}
	ctx, cancel := context.WithTimeout(context.Background(), 30*time.Second)
	defer cancel()
	for _, e := range c.Engines {
		if err := e.WaitUntilReady(ctx); err != nil {
			c.Close()
			return nil, err
		}
	}
	return c, nil
}

// SingleConfig returns the configuration of a one-node cluster on fresh in-memory file systems.
func SingleConfig(nodeName string) storage.Config {
	raft := nh.FreeAddr()
	gossip := nh.FreeAddr()
	return storage.Config{
		NodeID:         1,
		InitialMembers: map[uint64]string{1: raft},
		WALDir:         "/wal",
		NodeHostDir:    "/nh",
		RTTMillisecond: 2,
		RaftAddress:    raft,
		Gossip:         storage.GossipConfig{BindAddress: gossip, AdvertiseAddress: gossip, InitialMembers: []string{gossip}, ClusterName: "verif-" + nodeName, NodeName: nodeName},
		Table: storage.TableConfig{FS: pvfs.NewMem(), DataDir: "/tables", TableCacheSize: 256, BlockCacheSize: 1 << 20,
			ElectionRTT: 10, HeartbeatRTT: 1, SnapshotEntries: 100000, CompactionOverhead: 5000, MaxInMemLogSize: 6 * 1024 * 1024},
		Meta: storage.MetaConfig{ElectionRTT: 10, HeartbeatRTT: 1, SnapshotEntries: 100000, CompactionOverhead: 5000, MaxInMemLogSize: 1024 * 1024},
		FS:   vfs.NewMem(),
		Log:  zap.NewNop().Sugar(),
	}
}

// FreshGossip gives cfg a new gossip port (Engine.Close does not release the old one).
func FreshGossip(cfg *storage.Config) {
	g := nh.FreeAddr()
	cfg.Gossip.BindAddress, cfg.Gossip.AdvertiseAddress, cfg.Gossip.InitialMembers = g, g, []string{g}
}

// Single starts one engine from a complete configuration (used for restarts on the same file systems).
func Single(cfg storage.Config) (*storage.Engine, error) {
	e, err := storage.New(cfg)
	if err != nil {
		return nil, err
	}
	if err := e.Start(); err != nil {
		_ = e.Close()
		return nil, err
	}
	ctx, cancel := context.WithTimeout(context.Background(), 30*time.Second)
	defer cancel()
	if err := e.WaitUntilReady(ctx); err != nil {
		_ = e.Close()
		return nil, err
	}
	return e, nil
}

// CreateTable creates the table through node 0 and starts its shard on every node (reconcile pass).
func (c *Cluster) CreateTable(name string) error {
	deadline := time.Now().Add(30 * time.Second)
	for {
		_, err := c.Engines[0].CreateTable(name)
		if err == nil {
			break
		}
		if time.Now().After(deadline) {
			return fmt.Errorf("create table: %w", err)
		}
		time.Sleep(10 * time.Millisecond)
	}
	for _, e := range c.Engines[1:] {
		for {
			if _, err := e.GetTable(name); err == nil {
				if err := e.Manager.VerifReconcile(); err == nil {
					break
				}
			}
			if time.Now().After(deadline) {
				return fmt.Errorf("table %s did not appear on node %d", name, e.Config().NodeID)
			}
			time.Sleep(5 * time.Millisecond)
		}
	}
	// wait for a leader of the table shard
	for {
		t, err := c.Engines[0].GetTable(name)
		if err == nil {
			if _, _, ok, _ := c.Engines[0].GetLeaderID(t.ClusterID); ok {
				return nil
			}
		}
		if time.Now().After(deadline) {
			return fmt.Errorf("table %s has no leader", name)
		}
		time.Sleep(5 * time.Millisecond)
	}
}

func (c *Cluster) Close() {
	for _, e := range c.Engines {
		func() {
			defer func() { _ = recover() }()
			_ = e.Close()
		}()
	}
}
