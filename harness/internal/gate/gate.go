// Package gate is a deterministic scheduler for goroutines that park at gates.
// A "thread" (one per model process) runs calls; inside a call every gated operation first
// parks until the scheduler releases exactly that thread for exactly one operation.
package gate

import (
	"fmt"
	"time"
)

type evKind int

const (
	evArrive evKind = iota
	evDone
)

type Sched struct {
	n       int
	events  []chan evKind   // per thread: arrive / done notifications
	release []chan struct{} // per thread
	running []bool          // a call is in progress
	parked  []bool          // the call is parked at a gate
	Timeout time.Duration
}

func New(n int) *Sched {
	s := &Sched{n: n, Timeout: 20 * time.Second}
	for i := 0; i < n; i++ {
		s.events = append(s.events, make(chan evKind, 4))
		s.release = append(s.release, make(chan struct{}))
		s.running = append(s.running, false)
		s.parked = append(s.parked, false)
	}
	return s
}

// Gate is called by the gated operation of thread t (on the call's goroutine).
func (s *Sched) Gate(t int) {
	s.events[t] <- evArrive
	<-s.release[t]
}

// Start launches call f on thread t and runs it until its first gate (or its end).
func (s *Sched) Start(t int, f func()) error {
	if s.running[t] {
		return fmt.Errorf("thread %d already running", t)
	}
	s.running[t] = true
	go func() {
		f()
		s.events[t] <- evDone
	}()
	return s.wait(t)
}

func (s *Sched) wait(t int) error {
	select {
	case e := <-s.events[t]:
		if e == evArrive {
			s.parked[t] = true
		} else {
			s.running[t] = false
			s.parked[t] = false
		}
		return nil
	case <-time.After(s.Timeout):
		return fmt.Errorf("thread %d neither reached a gate nor finished within %s", t, s.Timeout)
	}
}

// Step lets thread t perform exactly one gated operation and runs it to its next gate / end.
func (s *Sched) Step(t int) error {
	if !s.running[t] || !s.parked[t] {
		return fmt.Errorf("thread %d is not parked", t)
	}
	s.parked[t] = false
	s.release[t] <- struct{}{}
	return s.wait(t)
}

func (s *Sched) Running(t int) bool { return s.running[t] }
func (s *Sched) Parked(t int) bool  { return s.parked[t] }
