// Package model holds the driver-side representation of table commands in the
// shape of spec/Table.tla, their conversion to regattapb and to the JSON that
// the trace specifications read. It contains NO semantics (no expected
// results): the oracle is the TLA+ specification evaluated by TLC.
package model

import (
	"encoding/json"
	"hash/fnv"

	"github.com/jamf/regatta/regattapb"
)

// TokenThreshold : values longer than this are logged as <<-2, len, h1..h4>>.
const TokenThreshold = 64

// K is a key: always logged in full as an array of 0..255.
type K []byte

func ints(b []byte) []int {
	r := make([]int, len(b))
	for i, x := range b {
		r[i] = int(x)
	}
	return r
}

func (k K) MarshalJSON() ([]byte, error) { return json.Marshal(ints(k)) }

func (k *K) UnmarshalJSON(b []byte) error {
	var a []int
	if err := json.Unmarshal(b, &a); err != nil {
		return err
	}
	*k = make([]byte, len(a))
	for i, x := range a {
		(*k)[i] = byte(x)
	}
	return nil
}

// V is a value: logged in full when short, as a token otherwise.
type V []byte

func (v V) MarshalJSON() ([]byte, error) {
	if len(v) <= TokenThreshold {
		return json.Marshal(ints(v))
	}
	h := fnv.New64a()
	h.Write(v)
	s := h.Sum64()
	return json.Marshal([]int{-2, len(v), int(s & 0xffff), int((s >> 16) & 0xffff), int((s >> 32) & 0xffff), int((s >> 48) & 0xffff)})
}

func (v *V) UnmarshalJSON(b []byte) error {
	var k K
	if err := k.UnmarshalJSON(b); err != nil {
		return err
	}
	*v = V(k)
	return nil
}

// End is an optional range end. JSON: [-1] when absent.
type End struct {
	Has bool
	B   []byte
}

func (e End) MarshalJSON() ([]byte, error) {
	if !e.Has {
		return []byte("[-1]"), nil
	}
	return json.Marshal(ints(e.B))
}

func (e *End) UnmarshalJSON(b []byte) error {
	var a []int
	if err := json.Unmarshal(b, &a); err != nil {
		return err
	}
	if len(a) == 1 && a[0] == -1 {
		*e = End{}
		return nil
	}
	e.Has = true
	e.B = make([]byte, len(a))
	for i, x := range a {
		e.B[i] = byte(x)
	}
	return nil
}

// Bytes returns nil when absent, a non-nil slice when present.
func (e End) Bytes() []byte {
	if !e.Has {
		return nil
	}
	if e.B == nil {
		return []byte{}
	}
	return e.B
}

type KV struct {
	K K `json:"k"`
	V V `json:"v"`
}

// Op is one transaction operation / read request.
type Op struct {
	T         string `json:"t"` // range | put | del | none
	K         K      `json:"k"`
	End       End    `json:"end"`
	Limit     int64  `json:"limit"`
	KeysOnly  bool   `json:"keysOnly"`
	CountOnly bool   `json:"countOnly"`
	V         V      `json:"v"`
	Prev      bool   `json:"prev"`
	Count     bool   `json:"count"`
}

type Cmp struct {
	K      K      `json:"k"`
	End    End    `json:"end"`
	Res    string `json:"res"` // EQUAL GREATER LESS NOT_EQUAL
	HasVal bool   `json:"hasVal"`
	Val    V      `json:"val"`
}

// Cmd is one table command (spec/Table.tla ApplyCmd).
type Cmd struct {
	T     string `json:"t"` // PUT DEL PUTB DELB TXN SEQ DUMMY
	K     K      `json:"k"`
	V     V      `json:"v"`
	End   End    `json:"end"`
	Prev  bool   `json:"prev"`
	Count bool   `json:"count"`
	KVs   []KV   `json:"kvs"`
	Ks    []K    `json:"ks"`
	Cmp   []Cmp  `json:"cmp"`
	Succ  []Op   `json:"succ"`
	Fail  []Op   `json:"fail"`
	Cmds  []Cmd  `json:"cmds"`
	// Sli: as a command of a SEQUENCE built by a replication worker: the leader index it carries, plus one (0 = none)
	Sli int `json:"sli"`
}

// MarshalJSON makes sure sequences are [] and never null.
func (c Cmd) MarshalJSON() ([]byte, error) {
	type alias Cmd
	a := alias(c)
	if a.KVs == nil {
		a.KVs = []KV{}
	}
	if a.Ks == nil {
		a.Ks = []K{}
	}
	if a.Cmp == nil {
		a.Cmp = []Cmp{}
	}
	if a.Succ == nil {
		a.Succ = []Op{}
	}
	if a.Fail == nil {
		a.Fail = []Op{}
	}
	if a.Cmds == nil {
		a.Cmds = []Cmd{}
	}
	return json.Marshal(a)
}

// Resp is one response in the shape the specification compares.
type Resp struct {
	T       string `json:"t"` // range | put | del
	Kvs     []KV   `json:"kvs"`
	Count   int64  `json:"count"`
	More    bool   `json:"more"`
	Prev    []KV   `json:"prev"`
	Deleted int64  `json:"deleted"`
	Sz      int    `json:"sz"`
}

func (r Resp) MarshalJSON() ([]byte, error) {
	type alias Resp
	a := alias(r)
	if a.Kvs == nil {
		a.Kvs = []KV{}
	}
	if a.Prev == nil {
		a.Prev = []KV{}
	}
	return json.Marshal(a)
}

// ---------------------------------------------------------------- to protobuf

func (o Op) RangePB() *regattapb.RequestOp_Range {
	r := &regattapb.RequestOp_Range{Key: o.K, Limit: o.Limit, KeysOnly: o.KeysOnly, CountOnly: o.CountOnly}
	if o.End.Has && len(o.End.B) > 0 { // an empty range_end does not survive the wire for this message
		r.RangeEnd = o.End.B
	}
	return r
}

func (o Op) PB() *regattapb.RequestOp {
	switch o.T {
	case "range":
		return &regattapb.RequestOp{Request: &regattapb.RequestOp_RequestRange{RequestRange: o.RangePB()}}
	case "put":
		return &regattapb.RequestOp{Request: &regattapb.RequestOp_RequestPut{RequestPut: &regattapb.RequestOp_Put{Key: o.K, Value: o.V, PrevKv: o.Prev}}}
	case "del":
		d := &regattapb.RequestOp_DeleteRange{Key: o.K, PrevKv: o.Prev, Count: o.Count}
		if o.End.Has && len(o.End.B) > 0 {
			d.RangeEnd = o.End.B
		}
		return &regattapb.RequestOp{Request: &regattapb.RequestOp_RequestDeleteRange{RequestDeleteRange: d}}
	case "none":
		return &regattapb.RequestOp{}
	}
	panic("bad op " + o.T)
}

func (c Cmp) PB() *regattapb.Compare {
	p := &regattapb.Compare{Key: c.K, Target: regattapb.Compare_VALUE}
	switch c.Res {
	case "EQUAL":
		p.Result = regattapb.Compare_EQUAL
	case "GREATER":
		p.Result = regattapb.Compare_GREATER
	case "LESS":
		p.Result = regattapb.Compare_LESS
	case "NOT_EQUAL":
		p.Result = regattapb.Compare_NOT_EQUAL
	}
	if c.End.Has && len(c.End.B) > 0 {
		p.RangeEnd = c.End.B
	}
	if c.HasVal {
		v := []byte(c.Val)
		if v == nil {
			v = []byte{}
		}
		p.TargetUnion = &regattapb.Compare_Value{Value: v}
	}
	return p
}

func (c Cmd) TxnPB() *regattapb.Txn {
	t := &regattapb.Txn{}
	for _, x := range c.Cmp {
		t.Compare = append(t.Compare, x.PB())
	}
	for _, x := range c.Succ {
		t.Success = append(t.Success, x.PB())
	}
	for _, x := range c.Fail {
		t.Failure = append(t.Failure, x.PB())
	}
	return t
}

// PB converts to the wire command. li < 0 means no leader index.
func (c Cmd) PB(table string, li int64) *regattapb.Command {
	p := &regattapb.Command{Table: []byte(table)}
	if li >= 0 {
		u := uint64(li)
		p.LeaderIndex = &u
	}
	switch c.T {
	case "PUT":
		p.Type = regattapb.Command_PUT
		p.Kv = &regattapb.KeyValue{Key: c.K, Value: c.V}
		p.PrevKvs = c.Prev
	case "DEL":
		p.Type = regattapb.Command_DELETE
		p.Kv = &regattapb.KeyValue{Key: c.K}
		p.PrevKvs = c.Prev
		p.Count = c.Count
		p.RangeEnd = c.End.Bytes()
	case "PUTB":
		p.Type = regattapb.Command_PUT_BATCH
		for _, kv := range c.KVs {
			p.Batch = append(p.Batch, &regattapb.KeyValue{Key: kv.K, Value: kv.V})
		}
	case "DELB":
		p.Type = regattapb.Command_DELETE_BATCH
		for _, k := range c.Ks {
			p.Batch = append(p.Batch, &regattapb.KeyValue{Key: k})
		}
	case "TXN":
		p.Type = regattapb.Command_TXN
		p.Txn = c.TxnPB()
	case "SEQ":
		p.Type = regattapb.Command_SEQUENCE
		for _, s := range c.Cmds {
			p.Sequence = append(p.Sequence, s.PB(table, int64(s.Sli)-1))
		}
	case "DUMMY":
		p.Type = regattapb.Command_DUMMY
	default:
		panic("bad cmd " + c.T)
	}
	return p
}

// -------------------------------------------------------------- from protobuf

func kvs(in []*regattapb.KeyValue) []KV {
	out := make([]KV, 0, len(in))
	for _, kv := range in {
		out = append(out, KV{K: append([]byte{}, kv.Key...), V: append([]byte{}, kv.Value...)})
	}
	return out
}

func RangeResp(r *regattapb.ResponseOp_Range) Resp {
	return Resp{T: "range", Kvs: kvs(r.Kvs), Count: r.Count, More: r.More, Sz: r.SizeVT()}
}

func RespFromPB(r *regattapb.ResponseOp) Resp {
	switch x := r.Response.(type) {
	case *regattapb.ResponseOp_ResponseRange:
		return RangeResp(x.ResponseRange)
	case *regattapb.ResponseOp_ResponsePut:
		o := Resp{T: "put"}
		if x.ResponsePut.PrevKv != nil {
			o.Prev = kvs([]*regattapb.KeyValue{x.ResponsePut.PrevKv})
		}
		return o
	case *regattapb.ResponseOp_ResponseDeleteRange:
		return Resp{T: "del", Deleted: x.ResponseDeleteRange.Deleted, Prev: kvs(x.ResponseDeleteRange.PrevKvs)}
	}
	return Resp{T: "unknown"}
}

func RespsFromPB(rs []*regattapb.ResponseOp) []Resp {
	out := make([]Resp, 0, len(rs))
	for _, r := range rs {
		out = append(out, RespFromPB(r))
	}
	return out
}

// ---------------------------------------------------------------- from protobuf (traces of the repository's own tests)

// OpFromPB converts a transaction operation; ok=false for shapes the specification does not model.
func OpFromPB(o *regattapb.RequestOp) (Op, bool) {
	switch x := o.Request.(type) {
	case *regattapb.RequestOp_RequestRange:
		r := x.RequestRange
		if r == nil {
			return Op{}, false
		}
		op := Op{T: "range", K: r.Key, Limit: r.Limit, KeysOnly: r.KeysOnly, CountOnly: r.CountOnly}
		if r.RangeEnd != nil {
			op.End = End{Has: true, B: r.RangeEnd}
		}
		return op, true
	case *regattapb.RequestOp_RequestPut:
		if x.RequestPut == nil {
			return Op{}, false
		}
		return Op{T: "put", K: x.RequestPut.Key, V: x.RequestPut.Value, Prev: x.RequestPut.PrevKv}, true
	case *regattapb.RequestOp_RequestDeleteRange:
		d := x.RequestDeleteRange
		if d == nil {
			return Op{}, false
		}
		op := Op{T: "del", K: d.Key, Prev: d.PrevKv, Count: d.Count}
		if d.RangeEnd != nil {
			op.End = End{Has: true, B: d.RangeEnd}
		}
		return op, true
	case nil:
		return Op{T: "none"}, true
	}
	return Op{}, false
}

// CmdFromPB converts a log command into the shape of spec/Table.tla; ok=false for shapes the specification does not model.
func CmdFromPB(c *regattapb.Command) (Cmd, bool) {
	switch c.Type {
	case regattapb.Command_PUT:
		if c.Kv == nil {
			return Cmd{}, false
		}
		return Cmd{T: "PUT", K: c.Kv.Key, V: c.Kv.Value, Prev: c.PrevKvs}, true
	case regattapb.Command_DELETE:
		if c.Kv == nil {
			return Cmd{}, false
		}
		out := Cmd{T: "DEL", K: c.Kv.Key, Prev: c.PrevKvs, Count: c.Count}
		if c.RangeEnd != nil {
			out.End = End{Has: true, B: c.RangeEnd}
		}
		return out, true
	case regattapb.Command_PUT_BATCH:
		out := Cmd{T: "PUTB"}
		for _, kv := range c.Batch {
			if kv == nil {
				return Cmd{}, false
			}
			out.KVs = append(out.KVs, KV{K: kv.Key, V: kv.Value})
		}
		return out, true
	case regattapb.Command_DELETE_BATCH:
		out := Cmd{T: "DELB"}
		for _, kv := range c.Batch {
			if kv == nil {
				return Cmd{}, false
			}
			out.Ks = append(out.Ks, kv.Key)
		}
		return out, true
	case regattapb.Command_TXN:
		if c.Txn == nil {
			return Cmd{}, false
		}
		out := Cmd{T: "TXN"}
		for _, p := range c.Txn.Compare {
			if p == nil || p.Target != regattapb.Compare_VALUE {
				return Cmd{}, false
			}
			x := Cmp{K: p.Key, Res: p.Result.String()}
			if p.RangeEnd != nil {
				x.End = End{Has: true, B: p.RangeEnd}
			}
			if v, ok := p.TargetUnion.(*regattapb.Compare_Value); ok {
				x.HasVal, x.Val = true, v.Value
			}
			out.Cmp = append(out.Cmp, x)
		}
		for _, o := range c.Txn.Success {
			op, ok := OpFromPB(o)
			if !ok {
				return Cmd{}, false
			}
			out.Succ = append(out.Succ, op)
		}
		for _, o := range c.Txn.Failure {
			op, ok := OpFromPB(o)
			if !ok {
				return Cmd{}, false
			}
			out.Fail = append(out.Fail, op)
		}
		return out, true
	case regattapb.Command_SEQUENCE:
		out := Cmd{T: "SEQ"}
		for _, s := range c.Sequence {
			x, ok := CmdFromPB(s)
			if !ok {
				return Cmd{}, false
			}
			if s.LeaderIndex != nil {
				x.Sli = int(*s.LeaderIndex) + 1
			}
			out.Cmds = append(out.Cmds, x)
		}
		return out, true
	case regattapb.Command_DUMMY:
		return Cmd{T: "DUMMY"}, true
	}
	return Cmd{}, false
}
