// Package crashfs wraps pebble's strict in-memory file system with an operation counter and a crash
// trigger. Fault model (as in property C04): file data is durable up to the file's last Sync, directory
// entries up to the directory's last Sync. "Crash after operation k": from the k-th mutating operation on
// every later Sync is ignored, the interrupted call is allowed to return, then ResetToSyncedState drops
// everything that was not durable.
package crashfs

import (
	"os"
	"sync/atomic"

	"github.com/cockroachdb/pebble/vfs"
)

type FS struct {
	*vfs.MemFS
	ops     atomic.Int64
	crashAt atomic.Int64 // 0 = never; k = crash when the k-th operation has been performed
	crashed atomic.Bool
	LastOp  atomic.Value // description of the operation at which the crash fell
}

func New() *FS {
	f := &FS{MemFS: vfs.NewStrictMem()}
	return f
}

// Arm makes the FS crash after operation number k (counted from now on, 1-based); 0 disarms.
func (f *FS) Arm(k int64) {
	f.ops.Store(0)
	f.crashed.Store(false)
	f.crashAt.Store(k)
}

func (f *FS) Ops() int64    { return f.ops.Load() }
func (f *FS) Crashed() bool { return f.crashed.Load() }

// Recover drops everything that is not durable and makes the FS usable again.
func (f *FS) Recover() {
	f.MemFS.ResetToSyncedState()
	f.MemFS.SetIgnoreSyncs(false)
	f.crashAt.Store(0)
	f.crashed.Store(false)
}

func (f *FS) op(what string) {
	n := f.ops.Add(1)
	if k := f.crashAt.Load(); k > 0 && n == k {
		f.LastOp.Store(what)
		f.crashed.Store(true)
		f.MemFS.SetIgnoreSyncs(true)
	}
}

func (f *FS) Create(name string) (vfs.File, error) {
	x, err := f.MemFS.Create(name)
	f.op("create " + name)
	if err != nil {
		return nil, err
	}
	return &file{File: x, fs: f, name: name}, nil
}

func (f *FS) Link(o, n string) error { err := f.MemFS.Link(o, n); f.op("link " + n); return err }
func (f *FS) Remove(n string) error  { err := f.MemFS.Remove(n); f.op("remove " + n); return err }
func (f *FS) RemoveAll(n string) error {
	err := f.MemFS.RemoveAll(n)
	f.op("removeall " + n)
	return err
}
func (f *FS) Rename(o, n string) error {
	err := f.MemFS.Rename(o, n)
	f.op("rename " + o + " -> " + n)
	return err
}
func (f *FS) ReuseForWrite(o, n string) (vfs.File, error) {
	x, err := f.MemFS.ReuseForWrite(o, n)
	f.op("reuse " + n)
	if err != nil {
		return nil, err
	}
	return &file{File: x, fs: f, name: n}, nil
}
func (f *FS) MkdirAll(d string, p os.FileMode) error {
	err := f.MemFS.MkdirAll(d, p)
	f.op("mkdirall " + d)
	return err
}
func (f *FS) Open(name string, opts ...vfs.OpenOption) (vfs.File, error) {
	x, err := f.MemFS.Open(name, opts...)
	if err != nil {
		return nil, err
	}
	return &file{File: x, fs: f, name: name}, nil
}
func (f *FS) OpenDir(name string) (vfs.File, error) {
	x, err := f.MemFS.OpenDir(name)
	if err != nil {
		return nil, err
	}
	return &file{File: x, fs: f, name: name}, nil
}

type file struct {
	vfs.File
	fs   *FS
	name string
}

func (x *file) Write(p []byte) (int, error) {
	n, err := x.File.Write(p)
	x.fs.op("write " + x.name)
	return n, err
}
func (x *file) Sync() error {
	err := x.File.Sync()
	x.fs.op("sync " + x.name)
	return err
}
