package main

import (
	"bytes"
	"context"
	"encoding/json"
	"errors"
	"flag"
	"fmt"
	"math/rand"
	"os"
	"strings"
	"time"

	"github.com/jamf/regatta/storage/kv"
	dbsm "github.com/lni/dragonboat/v4/statemachine"

	"verif/harness/internal/nh"
	"verif/harness/internal/tracer"
)

// metakv : C13. Real kv.LFSM instances (Update / Lookup / snapshot) and a real kv.RaftStore.

type mkEntry struct {
	I   uint64   `json:"i"`
	Op  string   `json:"op"`
	K   []string `json:"k"`
	Val string   `json:"val"`
	Ver uint64   `json:"ver"`
}

func joinKey(k []string) string { return "/" + strings.Join(k, "/") }
func splitKey(s string) []string {
	return strings.Split(strings.TrimPrefix(s, "/"), "/")
}

type mkRep struct {
	id  int
	sm  dbsm.IConcurrentStateMachine
	pos int
}

func (r *mkRep) update(tr *tracer.T, ents []mkEntry) {
	in := make([]dbsm.Entry, len(ents))
	for i, e := range ents {
		b, _ := json.Marshal(kv.Update{Op: e.Op, KVPair: kv.Pair{Key: joinKey(e.K), Value: e.Val, Ver: e.Ver}})
		in[i] = dbsm.Entry{Index: e.I, Cmd: b}
	}
	out, err := r.sm.Update(in)
	if err != nil {
		die("lfsm update: %v", err)
	}
	evs := make([]map[string]any, len(ents))
	for i, e := range ents {
		var p kv.Pair
		if err := json.Unmarshal(out[i].Result.Data, &p); err != nil {
			// an observation, not a driver error: the reported pair is what it is (the specification rejects it)
			p = kv.Pair{Key: "/undecodable-result", Value: string(out[i].Result.Data)}
		}
		evs[i] = map[string]any{"i": e.I, "op": e.Op, "k": e.K, "val": e.Val, "ver": e.Ver,
			"code": out[i].Result.Value, "rk": splitKey(p.Key), "rval": p.Value, "rver": p.Ver}
	}
	tr.Emit(map[string]any{"ev": "update", "rep": r.id, "ents": evs})
}

func pairsJSON(ps []kv.Pair) []map[string]any {
	out := make([]map[string]any, 0, len(ps))
	for _, p := range ps {
		out = append(out, map[string]any{"k": splitKey(p.Key), "val": p.Value, "ver": p.Ver})
	}
	return out
}

type mkLookup interface {
	Get(string) (kv.Pair, error)
	Exists(string) (bool, error)
	GetAll(string) ([]kv.Pair, error)
	GetAllValues(string) ([]string, error)
	List(string) ([]string, error)
	ListDir(string) ([]string, error)
}

// lfsmLookup adapts LFSM.Lookup queries to the lookup interface
type lfsmLookup struct {
	sm dbsm.IConcurrentStateMachine
}

func (l lfsmLookup) Get(k string) (kv.Pair, error) {
	v, err := l.sm.Lookup(kv.QueryKey{Key: k})
	if err != nil {
		return kv.Pair{}, err
	}
	return v.(kv.Pair), nil
}
func (l lfsmLookup) Exists(k string) (bool, error) {
	v, err := l.sm.Lookup(kv.QueryExist{Key: k})
	if err != nil {
		return false, err
	}
	return v.(bool), nil
}
func (l lfsmLookup) GetAll(p string) ([]kv.Pair, error) {
	v, err := l.sm.Lookup(kv.QueryAll{Pattern: p})
	if err != nil {
		return nil, err
	}
	return v.([]kv.Pair), nil
}
func (l lfsmLookup) GetAllValues(p string) ([]string, error) {
	v, err := l.sm.Lookup(kv.QueryAllValues{Pattern: p})
	if err != nil {
		return nil, err
	}
	return v.([]string), nil
}
func (l lfsmLookup) List(p string) ([]string, error) {
	v, err := l.sm.Lookup(kv.QueryList{Path: p})
	if err != nil {
		return nil, err
	}
	return v.([]string), nil
}
func (l lfsmLookup) ListDir(p string) ([]string, error) {
	v, err := l.sm.Lookup(kv.QueryListDir{Path: p})
	if err != nil {
		return nil, err
	}
	return v.([]string), nil
}

var mkKeys = [][]string{{"tables", "a"}, {"tables", "b"}, {"tables", "a", "lease"}, {"tables", "sys", "idseq"},
	{"cleanup", "1", "10001"}, {"cleanup", "2", "10001"}, {"queue", "a", "n1"}, {"tables", "ab"}, {"tables", "a", "x", "y"}}
var mkPatterns = [][]string{{"tables", "*"}, {"cleanup", "1", "*"}, {"tables", "*", "lease"}, {"*", "*"}, {"queue", "a", "*"}, {"tables", "a"}, {"*", "*", "*"}, {"nothing", "*"}}
var mkPaths = [][]string{{"tables"}, {"tables", "a"}, {"cleanup"}, {"cleanup", "1"}, {"queue"}, {"tables", "a", "x"}, {"nothing"}, {"tables", "ab"}}

func mkLookups(tr *tracer.T, id int, l mkLookup, rng *rand.Rand, n int) {
	for i := 0; i < n; i++ {
		switch rng.Intn(4) {
		case 0:
			k := mkKeys[rng.Intn(len(mkKeys))]
			p, err := l.Get(joinKey(k))
			if err != nil && !errors.Is(err, kv.ErrNotExist) {
				die("get: %v", err)
			}
			tr.Emit(map[string]any{"ev": "get", "rep": id, "k": k, "found": err == nil, "val": p.Value, "ver": p.Ver})
		case 1:
			k := mkKeys[rng.Intn(len(mkKeys))]
			ok, err := l.Exists(joinKey(k))
			if err != nil {
				die("exists: %v", err)
			}
			tr.Emit(map[string]any{"ev": "exists", "rep": id, "k": k, "found": ok})
		case 2:
			p := mkPatterns[rng.Intn(len(mkPatterns))]
			ps, err := l.GetAll(joinKey(p))
			if err != nil {
				die("getall: %v", err)
			}
			vs, err := l.GetAllValues(joinKey(p))
			if err != nil {
				die("getallvalues: %v", err)
			}
			if vs == nil {
				vs = []string{}
			}
			tr.Emit(map[string]any{"ev": "getall", "rep": id, "p": p, "pairs": pairsJSON(ps), "values": vs})
		default:
			p := mkPaths[rng.Intn(len(mkPaths))]
			names, err := l.List(joinKey(p))
			if err != nil {
				die("list: %v", err)
			}
			dirs, err := l.ListDir(joinKey(p))
			if err != nil {
				die("listdir: %v", err)
			}
			tr.Emit(map[string]any{"ev": "list", "rep": id, "p": p, "names": names, "dirs": dirs})
		}
	}
}

func mkSnapshot(tr *tracer.T, from, to *mkRep, log []mkEntry, rng *rand.Rand) {
	ctx, err := from.sm.PrepareSnapshot()
	if err != nil {
		die("prepare: %v", err)
	}
	at := from.pos
	tr.Emit(map[string]any{"ev": "sprepare", "rep": from.id})
	// the state machine is a concurrent one: updates go on between PrepareSnapshot and SaveSnapshot
	if rng.Intn(2) == 0 && from.pos < len(log) {
		n := 1 + rng.Intn(3)
		if from.pos+n > len(log) {
			n = len(log) - from.pos
		}
		from.update(tr, log[from.pos:from.pos+n])
		from.pos += n
	}
	var buf bytes.Buffer
	if err := from.sm.SaveSnapshot(ctx, &buf, nil, nil); err != nil {
		die("save: %v", err)
	}
	if err := to.sm.RecoverFromSnapshot(&buf, nil, nil); err != nil {
		die("recover: %v", err)
	}
	to.pos = at
	tr.Emit(map[string]any{"ev": "snap", "from": from.id + 10, "to": to.id})
}

// mkRun : replicas consume one log with independent cuts, lookups and snapshot transfers
func mkRun(tr *tracer.T, rng *rand.Rand, log []mkEntry) {
	tr.Emit(map[string]any{"ev": "reset"})
	nrep := 2 + rng.Intn(2)
	reps := make([]*mkRep, nrep)
	for i := range reps {
		reps[i] = &mkRep{id: i + 1, sm: kv.NewLFSM()(1000, uint64(i+1))}
	}
	steps := len(log) * nrep
	for s := 0; s < steps; s++ {
		i := rng.Intn(nrep)
		r := reps[i]
		switch x := rng.Intn(100); {
		case x < 60:
			n := 1 + rng.Intn(4)
			if r.pos+n > len(log) {
				n = len(log) - r.pos
			}
			if n > 0 {
				r.update(tr, log[r.pos:r.pos+n])
				r.pos += n
			}
		case x < 75:
			j := rng.Intn(nrep)
			if j != i && reps[j].pos <= r.pos {
				mkSnapshot(tr, r, reps[j], log, rng)
				mkLookups(tr, reps[j].id, lfsmLookup{reps[j].sm}, rng, 3)
			}
		default:
			mkLookups(tr, r.id, lfsmLookup{r.sm}, rng, 2)
		}
	}
	for _, r := range reps {
		if r.pos < len(log) {
			r.update(tr, log[r.pos:])
			r.pos = len(log)
		}
		mkLookups(tr, r.id, lfsmLookup{r.sm}, rng, 6)
		ps, _ := lfsmLookup{r.sm}.GetAll("/*/*")
		vs, _ := lfsmLookup{r.sm}.GetAllValues("/*/*")
		if vs == nil {
			vs = []string{}
		}
		tr.Emit(map[string]any{"ev": "getall", "rep": r.id, "p": []string{"*", "*"}, "pairs": pairsJSON(ps), "values": vs})
	}
}

// random log; versions: zero, current, stale, future (tracked by simulating only WHICH versions were written,
// not the accept rule: "current" is simply the index of the last entry that touched the key, right or wrong)
func mkRandomLog(rng *rand.Rand, n int) []mkEntry {
	nk := 2 + rng.Intn(len(mkKeys)-2)
	last := map[string][]uint64{}
	var log []mkEntry
	idx := uint64(0)
	for i := 0; i < n; i++ {
		idx++
		if rng.Intn(8) == 0 {
			idx += uint64(1 + rng.Intn(3))
		}
		k := mkKeys[rng.Intn(nk)]
		e := mkEntry{I: idx, Op: "set", K: k, Val: []string{"x", "y", "", "z z"}[rng.Intn(4)]}
		if rng.Intn(4) == 0 {
			e.Op = "delete"
			e.Val = ""
		}
		h := last[joinKey(k)]
		switch x := rng.Intn(10); {
		case x < 5 && len(h) > 0:
			e.Ver = h[len(h)-1]
		case x < 7 && len(h) > 1:
			e.Ver = h[rng.Intn(len(h)-1)]
		case x < 8:
			e.Ver = idx + uint64(rng.Intn(5))
		default:
			e.Ver = 0
		}
		last[joinKey(k)] = append(h, idx)
		log = append(log, e)
	}
	return log
}

func init() {
	subcmds["metakv"] = func(args []string) int {
		fs := flag.NewFlagSet("metakv", flag.ExitOnError)
		mode := fs.String("mode", "lfsm", "lfsm | convlog | raft")
		seed := fs.Int64("seed", 1, "seed")
		n := fs.Int("n", 10, "behaviours")
		ops := fs.Int("ops", 20, "log length")
		out := fs.String("out", "trace.ndjson", "trace")
		only := fs.Int("only", -1, "only behaviour k")
		in := fs.String("in", "", "TLC-generated logs")
		_ = fs.Parse(args)
		tr, err := tracer.New(*out)
		if err != nil {
			die("%v", err)
		}
		var logs [][]mkEntry
		if *mode == "convlog" {
			data, err := os.ReadFile(*in)
			if err != nil {
				die("%v", err)
			}
			for _, line := range bytes.Split(bytes.TrimSpace(data), []byte("\n")) {
				var x struct {
					Log []mkEntry `json:"log"`
				}
				if err := json.Unmarshal(line, &x); err != nil {
					die("bad log: %v", err)
				}
				logs = append(logs, x.Log)
			}
			*n = len(logs)
		}
		for b := 0; b < *n; b++ {
			if *only >= 0 && b != *only {
				continue
			}
			rng := rand.New(rand.NewSource(*seed*104729 + int64(b)))
			start := tr.Lines() + 1
			switch *mode {
			case "lfsm":
				mkRun(tr, rng, mkRandomLog(rng, *ops))
			case "convlog":
				mkRun(tr, rng, logs[b])
			case "raft":
				mkRaft(tr, rng, *ops)
			}
			fmt.Printf("BEHAVIOUR %d lines %d-%d class 0\n", b, start, tr.Lines())
		}
		if err := tr.Close(); err != nil {
			die("%v", err)
		}
		return 0
	}
}

// mkRaft : the real kv.RaftStore on a one-node NodeHost (error mapping to ErrVersionMismatch,
// version = Raft index).
func mkRaft(tr *tracer.T, rng *rand.Rand, nOps int) {
	tr.Emit(map[string]any{"ev": "reset"})
	host, addr, err := nh.NewAuto(nil)
	if err != nil {
		die("%v", err)
	}
	defer host.Close()
	rs := &kv.RaftStore{NodeHost: host, ClusterID: 1000}
	if err := rs.Start(kv.RaftConfig{NodeID: 1, ElectionRTT: 5, HeartbeatRTT: 1, SnapshotEntries: 10, CompactionOverhead: 5, MaxInMemLogSize: 1024 * 1024, InitialMembers: map[uint64]string{1: addr}}); err != nil {
		die("raftstore start: %v", err)
	}
	ctx, cancel := context.WithTimeout(context.Background(), 20*time.Second)
	defer cancel()
	if err := rs.WaitForLeader(ctx); err != nil {
		die("no leader: %v", err)
	}
	nk := 2 + rng.Intn(5)
	hist := map[string][]uint64{}
	for i := 0; i < nOps; i++ {
		k := mkKeys[rng.Intn(nk)]
		ks := joinKey(k)
		h := hist[ks]
		var ver uint64
		switch x := rng.Intn(10); {
		case x < 5 && len(h) > 0:
			ver = h[len(h)-1]
		case x < 7 && len(h) > 1:
			ver = h[rng.Intn(len(h)-1)]
		case x < 8:
			ver = uint64(1000 + rng.Intn(5))
		}
		switch x := rng.Intn(10); {
		case x < 5:
			val := []string{"x", "y", "", "{\"a\":1}"}[rng.Intn(4)]
			p, err := rs.Set(ks, val, ver)
			es := ""
			if errors.Is(err, kv.ErrVersionMismatch) {
				es = "mismatch"
			} else if err != nil {
				die("raft set: %v", err)
			} else {
				hist[ks] = append(h, p.Ver)
			}
			tr.Emit(map[string]any{"ev": "rset", "rep": 1, "k": k, "val": val, "ver": ver, "err": es, "rk": splitKey(p.Key), "rval": p.Value, "rver": p.Ver})
		case x < 7:
			err := rs.Delete(ks, ver)
			es := ""
			if errors.Is(err, kv.ErrVersionMismatch) {
				es = "mismatch"
			} else if err != nil {
				die("raft delete: %v", err)
			}
			tr.Emit(map[string]any{"ev": "rdel", "rep": 1, "k": k, "ver": ver, "err": es})
		default:
			mkLookups(tr, 1, rs, rng, 2)
		}
	}
	mkLookups(tr, 1, rs, rng, 6)
}
