package main

import (
	"bytes"
	"context"
	"encoding/json"
	"errors"
	"flag"
	"fmt"
	"os"
	"time"

	serrors "github.com/jamf/regatta/storage/errors"
	"github.com/jamf/regatta/storage/kv"
	"github.com/jamf/regatta/storage/table"

	"verif/harness/internal/gate"
	"verif/harness/internal/nh"
	"verif/harness/internal/tracer"
)

// lease : C15. Real Manager.LeaseTable / ReturnTable of 2-3 managers (one per node id) sharing one
// real kv.RaftStore; every store call parks at a gate and is released in the order of a TLC-generated
// schedule; the trace carries every store call and every return value.

type rawStore interface {
	Exists(key string) (bool, error)
	Set(key string, value string, ver uint64) (kv.Pair, error)
	Delete(key string, ver uint64) error
	Get(key string) (kv.Pair, error)
	GetAll(pattern string) ([]kv.Pair, error)
}

type gatedStore struct {
	inner rawStore
	node  int // 1-based node id
	s     *gate.Sched
	tr    *tracer.T
}

func untilClass(v string) (uint64, string) {
	var l table.Lease
	if err := json.Unmarshal([]byte(v), &l); err != nil {
		return 0, "bad"
	}
	if l.Until.Before(time.Now()) {
		return l.ID, "past"
	}
	return l.ID, "future"
}

func errClass(err error) string {
	switch {
	case err == nil:
		return ""
	case errors.Is(err, kv.ErrVersionMismatch):
		return "mismatch"
	default:
		return "error:" + err.Error()
	}
}

func (g *gatedStore) Exists(key string) (bool, error) {
	g.s.Gate(g.node - 1)
	ok, err := g.inner.Exists(key)
	g.tr.Emit(map[string]any{"ev": "sexists", "n": g.node, "key": key, "found": ok, "err": errClass(err)})
	return ok, err
}

func (g *gatedStore) Get(key string) (kv.Pair, error) {
	g.s.Gate(g.node - 1)
	p, err := g.inner.Get(key)
	if err != nil && !errors.Is(err, kv.ErrNotExist) {
		die("store get: %v", err)
	}
	owner, cls := uint64(0), "none"
	if err == nil {
		owner, cls = untilClass(p.Value)
	}
	g.tr.Emit(map[string]any{"ev": "sget", "n": g.node, "key": key, "found": err == nil, "owner": owner, "until": cls, "ver": p.Ver, "val": p.Value})
	return p, err
}

func (g *gatedStore) Set(key, value string, ver uint64) (kv.Pair, error) {
	g.s.Gate(g.node - 1)
	p, err := g.inner.Set(key, value, ver)
	owner, cls := untilClass(value)
	g.tr.Emit(map[string]any{"ev": "sset", "n": g.node, "key": key, "ver": ver, "owner": owner, "until": cls, "val": value, "err": errClass(err), "rver": p.Ver})
	return p, err
}

func (g *gatedStore) Delete(key string, ver uint64) error {
	g.s.Gate(g.node - 1)
	err := g.inner.Delete(key, ver)
	g.tr.Emit(map[string]any{"ev": "sdel", "n": g.node, "key": key, "ver": ver, "err": errClass(err)})
	return err
}

func (g *gatedStore) GetAll(pattern string) ([]kv.Pair, error) {
	g.s.Gate(g.node - 1)
	ps, err := g.inner.GetAll(pattern)
	g.tr.Emit(map[string]any{"ev": "sgetall", "n": g.node, "p": pattern, "n_pairs": len(ps), "err": errClass(err)})
	return ps, err
}

type leaseBeh struct {
	Prog  [][]string `json:"prog"`
	Sched []int      `json:"sched"`
}

func startRaftStore() (*kv.RaftStore, func()) {
	host, addr, err := nh.NewAuto(nil)
	if err != nil {
		die("%v", err)
	}
	rs := &kv.RaftStore{NodeHost: host, ClusterID: 1000}
	if err := rs.Start(kv.RaftConfig{NodeID: 1, ElectionRTT: 5, HeartbeatRTT: 1, SnapshotEntries: 1000, CompactionOverhead: 500, MaxInMemLogSize: 1024 * 1024, InitialMembers: map[uint64]string{1: addr}}); err != nil {
		die("raftstore start: %v", err)
	}
	ctx, cancel := context.WithTimeout(context.Background(), 20*time.Second)
	defer cancel()
	if err := rs.WaitForLeader(ctx); err != nil {
		die("no leader: %v", err)
	}
	return rs, func() { host.Close() }
}

func leaseRun(tr *tracer.T, rs *kv.RaftStore, b leaseBeh, tbl string) {
	tr.Emit(map[string]any{"ev": "reset"})
	nn := len(b.Prog)
	s := gate.New(nn)
	mgrs := make([]*table.Manager, nn)
	for i := 0; i < nn; i++ {
		mgrs[i] = table.NewManager(nil, nil, &gatedStore{inner: rs, node: i + 1, s: s, tr: tr},
			table.Config{NodeID: uint64(i + 1), Table: table.TableConfig{BlockCacheSize: 1 << 20, TableCacheSize: 16}})
	}
	next := make([]int, nn)
	call := func(i int) func() {
		kind := b.Prog[i][next[i]]
		next[i]++
		return func() {
			var res string
			switch kind {
			case "LL", "LE":
				d := time.Hour
				if kind == "LE" {
					d = -time.Hour
				}
				err := mgrs[i].LeaseTable(tbl, d)
				switch {
				case err == nil:
					res = "ok"
				case errors.Is(err, serrors.ErrLeaseNotAcquired):
					res = "notacquired"
				default:
					res = errClass(err)
				}
			case "RT":
				ok, err := mgrs[i].ReturnTable(tbl)
				switch {
				case err != nil:
					res = errClass(err)
				case ok:
					res = "returned"
				default:
					res = "notmine"
				}
			}
			tr.Emit(map[string]any{"ev": "ret", "n": i + 1, "call": kind, "res": res})
		}
	}
	step := func(i int) {
		if !s.Running(i) {
			if next[i] >= len(b.Prog[i]) {
				return
			}
			if err := s.Start(i, call(i)); err != nil {
				die("%v", err)
			}
		}
		if s.Parked(i) {
			if err := s.Step(i); err != nil {
				die("%v", err)
			}
		}
	}
	for _, n := range b.Sched {
		step(n - 1)
	}
	// drain whatever the schedule left (a change of the code may need more store calls than the model)
	for i := 0; i < nn; i++ {
		for guard := 0; (s.Running(i) || next[i] < len(b.Prog[i])) && guard < 100; guard++ {
			step(i)
		}
	}
}

func init() {
	subcmds["lease"] = func(args []string) int {
		fs := flag.NewFlagSet("lease", flag.ExitOnError)
		out := fs.String("out", "trace.ndjson", "trace")
		only := fs.Int("only", -1, "only behaviour k")
		in := fs.String("in", "", "TLC-generated behaviours")
		_ = fs.Parse(args)
		tr, err := tracer.New(*out)
		if err != nil {
			die("%v", err)
		}
		data, err := os.ReadFile(*in)
		if err != nil {
			die("%v", err)
		}
		rs, stop := startRaftStore()
		defer stop()
		for b, line := range bytes.Split(bytes.TrimSpace(data), []byte("\n")) {
			if *only >= 0 && b != *only {
				continue
			}
			var x leaseBeh
			if err := json.Unmarshal(line, &x); err != nil {
				die("bad behaviour: %v", err)
			}
			start := tr.Lines() + 1
			leaseRun(tr, rs, x, fmt.Sprintf("t%d", b)) // a fresh table name per behaviour = a fresh lease record
			fmt.Printf("BEHAVIOUR %d lines %d-%d class 0\n", b, start, tr.Lines())
		}
		if err := tr.Close(); err != nil {
			die("%v", err)
		}
		return 0
	}
}
