package main

import (
	"bytes"
	"context"
	"encoding/json"
	"errors"
	"flag"
	"fmt"
	"math/rand"
	"os"
	"strings"
	"sync"
	"time"

	serrors "github.com/jamf/regatta/storage/errors"
	"github.com/jamf/regatta/storage/kv"
	"github.com/jamf/regatta/storage/table"
	dbsm "github.com/lni/dragonboat/v4/statemachine"

	"verif/harness/internal/gate"
	"verif/harness/internal/nh"
	"verif/harness/internal/tracer"
)

// lease : C15. Real Manager.LeaseTable / ReturnTable of 2-3 managers (one per node id) sharing one
// real kv.RaftStore; every store call parks at a gate and is released in the order of a TLC-generated
// schedule; the trace carries every store call and every return value.

type rawStore interface {
	Exists(key string) (bool, error)
	Set(key string, value string, ver uint64) (kv.Pair, error)
	Delete(key string, ver uint64) error
	Get(key string) (kv.Pair, error)
	GetAll(pattern string) ([]kv.Pair, error)
}

type gatedStore struct {
	inner rawStore
	node  int // 1-based node id
	s     *gate.Sched
	tr    *tracer.T
}

func untilClass(v string) (uint64, string) {
	var l table.Lease
	if err := json.Unmarshal([]byte(v), &l); err != nil {
		return 0, "bad"
	}
	if l.Until.Before(time.Now()) {
		return l.ID, "past"
	}
	return l.ID, "future"
}

func errClass(err error) string {
	switch {
	case err == nil:
		return ""
	case errors.Is(err, kv.ErrVersionMismatch):
		return "mismatch"
	default:
		return "error:" + err.Error()
	}
}

func (g *gatedStore) Exists(key string) (bool, error) {
	g.s.Gate(g.node - 1)
	ok, err := g.inner.Exists(key)
	g.tr.Emit(map[string]any{"ev": "sexists", "n": g.node, "key": key, "found": ok, "err": errClass(err)})
	return ok, err
}

func (g *gatedStore) Get(key string) (kv.Pair, error) {
	g.s.Gate(g.node - 1)
	p, err := g.inner.Get(key)
	if err != nil && !errors.Is(err, kv.ErrNotExist) {
		die("store get: %v", err)
	}
	owner, cls := uint64(0), "none"
	if err == nil {
		owner, cls = untilClass(p.Value)
	}
	g.tr.Emit(map[string]any{"ev": "sget", "n": g.node, "key": key, "lease": strings.HasSuffix(key, "/lease"), "found": err == nil, "owner": owner, "until": cls, "ver": p.Ver, "val": p.Value})
	return p, err
}

func (g *gatedStore) Set(key, value string, ver uint64) (kv.Pair, error) {
	g.s.Gate(g.node - 1)
	p, err := g.inner.Set(key, value, ver)
	owner, cls := untilClass(value)
	g.tr.Emit(map[string]any{"ev": "sset", "n": g.node, "key": key, "lease": strings.HasSuffix(key, "/lease"), "ver": ver, "owner": owner, "until": cls, "val": value, "err": errClass(err), "rver": p.Ver})
	return p, err
}

func (g *gatedStore) Delete(key string, ver uint64) error {
	g.s.Gate(g.node - 1)
	err := g.inner.Delete(key, ver)
	g.tr.Emit(map[string]any{"ev": "sdel", "n": g.node, "key": key, "lease": strings.HasSuffix(key, "/lease"), "ver": ver, "err": errClass(err)})
	return err
}

func (g *gatedStore) GetAll(pattern string) ([]kv.Pair, error) {
	g.s.Gate(g.node - 1)
	ps, err := g.inner.GetAll(pattern)
	g.tr.Emit(map[string]any{"ev": "sgetall", "n": g.node, "p": pattern, "n_pairs": len(ps), "err": errClass(err)})
	return ps, err
}

type leaseBeh struct {
	Prog  [][]string `json:"prog"`
	Sched []int      `json:"sched"`
}

func startRaftStore() (*kv.RaftStore, func()) {
	host, addr, err := nh.NewAuto(nil)
	if err != nil {
		die("%v", err)
	}
	rs := &kv.RaftStore{NodeHost: host, ClusterID: 1000}
	if err := rs.Start(kv.RaftConfig{NodeID: 1, ElectionRTT: 5, HeartbeatRTT: 1, SnapshotEntries: 1000, CompactionOverhead: 500, MaxInMemLogSize: 1024 * 1024, InitialMembers: map[uint64]string{1: addr}}); err != nil {
		die("raftstore start: %v", err)
	}
	ctx, cancel := context.WithTimeout(context.Background(), 20*time.Second)
	defer cancel()
	if err := rs.WaitForLeader(ctx); err != nil {
		die("no leader: %v", err)
	}
	return rs, func() { host.Close() }
}

func leaseRun(tr *tracer.T, rs *kv.RaftStore, b leaseBeh, tbl string) {
	tr.Emit(map[string]any{"ev": "reset"})
	nn := len(b.Prog)
	s := gate.New(nn)
	mgrs := make([]*table.Manager, nn)
	for i := 0; i < nn; i++ {
		mgrs[i] = table.NewManager(nil, nil, &gatedStore{inner: rs, node: i + 1, s: s, tr: tr},
			table.Config{NodeID: uint64(i + 1), Table: table.TableConfig{BlockCacheSize: 1 << 20, TableCacheSize: 16}})
	}
	// the catalogue record of the table (LeaseTable does not look at it; DeleteTable in the epilogue does)
	if rec, err := json.Marshal(table.Table{Name: tbl, ClusterID: 10001}); err != nil {
		die("%v", err)
	} else if _, err := rs.Set("/tables/"+tbl, string(rec), 0); err != nil {
		die("table record: %v", err)
	}
	next := make([]int, nn)
	call := func(i int) func() {
		kind := b.Prog[i][next[i]]
		next[i]++
		return func() {
			var res string
			switch kind {
			case "LL", "LE":
				d := time.Hour
				if kind == "LE" {
					d = -time.Hour
				}
				err := mgrs[i].LeaseTable(tbl, d)
				switch {
				case err == nil:
					res = "ok"
				case errors.Is(err, serrors.ErrLeaseNotAcquired):
					res = "notacquired"
				default:
					res = errClass(err)
				}
			case "DT":
				// another catalogue operation on the leased table: it must leave the lease record alone
				err := mgrs[i].DeleteTable(tbl)
				switch {
				case err == nil:
					res = "deleted"
				case errors.Is(err, serrors.ErrTableNotFound):
					res = "notfound"
				default:
					res = errClass(err)
				}
			case "GT":
				if _, err := mgrs[i].GetTables(); err != nil {
					res = errClass(err)
				} else {
					res = "listed"
				}
			case "RT":
				ok, err := mgrs[i].ReturnTable(tbl)
				switch {
				case err != nil:
					res = errClass(err)
				case ok:
					res = "returned"
				default:
					res = "notmine"
				}
			}
			tr.Emit(map[string]any{"ev": "ret", "n": i + 1, "call": kind, "res": res})
		}
	}
	step := func(i int) {
		if !s.Running(i) {
			if next[i] >= len(b.Prog[i]) {
				return
			}
			if err := s.Start(i, call(i)); err != nil {
				die("%v", err)
			}
		}
		if s.Parked(i) {
			if err := s.Step(i); err != nil {
				die("%v", err)
			}
		}
	}
	for _, n := range b.Sched {
		step(n - 1)
	}
	// drain whatever the schedule left (a change of the code may need more store calls than the model)
	drain := func() {
		for i := 0; i < nn; i++ {
			for guard := 0; (s.Running(i) || next[i] < len(b.Prog[i])) && guard < 100; guard++ {
				step(i)
			}
		}
	}
	drain()
	// EPILOGUE (sequential): whoever holds the lease now keeps it while the OTHER nodes list the tables, delete the
	// table and ask for the lease; then the holder renews and returns it
	if nn >= 2 {
		for _, e := range []struct {
			node int
			kind string
		}{{0, "LL"}, {1, "GT"}, {1, "DT"}, {1, "LL"}, {nn - 1, "LL"}, {0, "LL"}, {1, "RT"}, {0, "RT"}, {1, "LL"}, {0, "DT"}, {0, "LL"}} {
			b.Prog[e.node] = append(b.Prog[e.node], e.kind)
			drain()
		}
	}
}

// leaseRace : racing lease requests whose compare-and-set proposals are committed together and reach the metadata state
// machine as ONE apply batch: the state machine is parked (verif hook) on a preceding proposal while the racers read the
// lease record and propose. Cases: unclaimed table, expired lease of another node, expired lease of a racer, own renewal
// racing with a takeover.
func leaseRace(tr *tracer.T, rs *kv.RaftStore, rng *rand.Rand, round int) {
	tr.Emit(map[string]any{"ev": "reset"})
	tbl := fmt.Sprintf("race%d", round)
	nn := 2 + rng.Intn(3)
	mgrs := make([]*table.Manager, nn+1)
	for i := range mgrs {
		mgrs[i] = table.NewManager(nil, nil, rs, table.Config{NodeID: uint64(i + 1), Table: table.TableConfig{BlockCacheSize: 1 << 20, TableCacheSize: 16}})
	}
	// the situation before the race
	pre := rng.Intn(4)
	holder, unexpired := 0, false
	switch pre {
	case 1: // an EXPIRED lease of a node that does not take part
		if err := mgrs[nn].LeaseTable(tbl, -time.Hour); err != nil {
			die("pre lease: %v", err)
		}
		holder = nn + 1
	case 2: // an expired lease of racer 1
		if err := mgrs[0].LeaseTable(tbl, -time.Hour); err != nil {
			die("pre lease: %v", err)
		}
		holder = 1
	case 3: // an UNEXPIRED lease of racer 1 (it renews while the others try to take over)
		if err := mgrs[0].LeaseTable(tbl, time.Hour); err != nil {
			die("pre lease: %v", err)
		}
		holder, unexpired = 1, true
	}
	var mu sync.Mutex
	cond := sync.NewCond(&mu)
	parked := true
	kv.VerifUpdateHook = func(shard, replica uint64, ents []dbsm.Entry) {
		mu.Lock()
		for parked {
			cond.Wait()
		}
		mu.Unlock()
	}
	defer func() { kv.VerifUpdateHook = nil }()
	// a proposal on another key parks the state machine
	blocker := make(chan struct{})
	go func() {
		if _, err := rs.Set("/verif/blocker", fmt.Sprint(round), 0); err != nil && !errors.Is(err, kv.ErrVersionMismatch) {
			die("blocker: %v", err)
		}
		close(blocker)
	}()
	time.Sleep(3 * time.Millisecond)
	res := make([]string, nn)
	var wg sync.WaitGroup
	for i := 0; i < nn; i++ {
		wg.Add(1)
		go func(i int) {
			defer wg.Done()
			err := mgrs[i].LeaseTable(tbl, time.Hour)
			switch {
			case err == nil:
				res[i] = "ok"
			case errors.Is(err, serrors.ErrLeaseNotAcquired):
				res[i] = "notacquired"
			default:
				res[i] = errClass(err)
			}
		}(i)
	}
	time.Sleep(time.Duration(10+rng.Intn(15)) * time.Millisecond) // the racers have read the record and proposed
	mu.Lock()
	parked = false
	cond.Broadcast()
	mu.Unlock()
	wg.Wait()
	<-blocker
	// who holds it afterwards, by the store
	owner := uint64(0)
	if p, err := rs.Get("/tables/" + tbl + "/lease"); err == nil {
		owner, _ = untilClass(p.Value)
	}
	tr.Emit(map[string]any{"ev": "race", "results": res, "holder": holder, "unexpired": unexpired, "owner": owner})
}

func init() {
	subcmds["lease"] = func(args []string) int {
		fs := flag.NewFlagSet("lease", flag.ExitOnError)
		out := fs.String("out", "trace.ndjson", "trace")
		only := fs.Int("only", -1, "only behaviour k")
		in := fs.String("in", "", "TLC-generated behaviours")
		races := fs.Int("races", 0, "racing rounds (batched compare-and-set proposals) instead of TLC schedules")
		seed := fs.Int64("seed", 1, "seed")
		_ = fs.Parse(args)
		tr, err := tracer.New(*out)
		if err != nil {
			die("%v", err)
		}
		if *races > 0 {
			rs, stop := startRaftStore()
			defer func() { stop() }()
			done := 0
			for b := 0; b < *races; b++ {
				if *only >= 0 && b != *only {
					continue
				}
				if done++; done%1000 == 0 {
					// a fresh store now and then: the in-memory Raft log and its snapshots grow with every behaviour
					stop()
					rs, stop = startRaftStore()
				}
				start := tr.Lines() + 1
				leaseRace(tr, rs, rand.New(rand.NewSource(*seed*65537+int64(b))), b)
				fmt.Printf("BEHAVIOUR %d lines %d-%d class 1\n", b, start, tr.Lines())
			}
			if err := tr.Close(); err != nil {
				die("%v", err)
			}
			return 0
		}
		data, err := os.ReadFile(*in)
		if err != nil {
			die("%v", err)
		}
		rs, stop := startRaftStore()
		defer func() { stop() }()
		done := 0
		for b, line := range bytes.Split(bytes.TrimSpace(data), []byte("\n")) {
			if *only >= 0 && b != *only {
				continue
			}
			if done++; done%1000 == 0 {
				// a fresh store now and then: the in-memory Raft log and its snapshots grow with every behaviour
				stop()
				rs, stop = startRaftStore()
			}
			var x leaseBeh
			if err := json.Unmarshal(line, &x); err != nil {
				die("bad behaviour: %v", err)
			}
			start := tr.Lines() + 1
			leaseRun(tr, rs, x, fmt.Sprintf("t%d", b)) // a fresh table name per behaviour = a fresh lease record
			fmt.Printf("BEHAVIOUR %d lines %d-%d class 0\n", b, start, tr.Lines())
		}
		if err := tr.Close(); err != nil {
			die("%v", err)
		}
		return 0
	}
}
