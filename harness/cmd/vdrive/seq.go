package main

import (
	"github.com/jamf/regatta/regattapb"
	"github.com/jamf/regatta/util/iter"
)

func collectSeq(res any, f func(*regattapb.ResponseOp_Range)) {
	s, ok := res.(iter.Seq[*regattapb.ResponseOp_Range])
	if !ok {
		die("iterator lookup returned %T", res)
	}
	s(func(x *regattapb.ResponseOp_Range) bool { f(x); return true })
}
