package main

import (
	"bufio"
	"encoding/json"
	"flag"
	"fmt"
	"os"
	"sort"

	"github.com/jamf/regatta/storage/kv"

	"verif/harness/internal/tracer"
)

// kvtrace : traces of the REPOSITORY'S OWN TESTS, metadata state machines. With the build tag verif and VERIF_KV_TRACE set
// every kv.LFSM of a test binary appends its Update calls (raw commands and results) and, after RecoverFromSnapshot, its
// complete store to a file. This sub-command only DECODES that file into the events of Trace_MetaKV: one behaviour per
// state machine instance (they start empty); "adopt" = the store an instance shows after RecoverFromSnapshot.
func init() {
	subcmds["kvtrace"] = func(args []string) int {
		fs := flag.NewFlagSet("kvtrace", flag.ExitOnError)
		in := fs.String("in", "", "raw trace written by the repository's tests")
		out := fs.String("out", "trace.ndjson", "trace")
		only := fs.Int("only", -1, "only behaviour k")
		maxEnts := fs.Int("maxents", 600, "an instance is followed until it has applied this many entries")
		_ = fs.Parse(args)
		f, err := os.Open(*in)
		if err != nil {
			die("%v", err)
		}
		defer f.Close()
		type rawEnt struct {
			I    uint64 `json:"i"`
			Cmd  string `json:"cmd"`
			Val  uint64 `json:"val"`
			Data string `json:"data"`
		}
		type rawEv struct {
			Ev    string   `json:"ev"`
			Pid   int      `json:"pid"`
			Inst  int      `json:"inst"`
			Seq   int      `json:"seq"`
			Ents  []rawEnt `json:"ents"`
			Store string   `json:"store"`
		}
		type key struct{ pid, inst int }
		byInst := map[key][]rawEv{}
		sc := bufio.NewScanner(f)
		sc.Buffer(make([]byte, 1<<20), 1<<30)
		for sc.Scan() {
			var e rawEv
			if err := json.Unmarshal(sc.Bytes(), &e); err != nil {
				continue // a line torn by a test binary that was killed
			}
			byInst[key{e.Pid, e.Inst}] = append(byInst[key{e.Pid, e.Inst}], e)
		}
		var keys []key
		for k := range byInst {
			keys = append(keys, k)
		}
		sort.Slice(keys, func(i, j int) bool {
			if keys[i].pid != keys[j].pid {
				return keys[i].pid < keys[j].pid
			}
			return keys[i].inst < keys[j].inst
		})
		tr, err := tracer.New(*out)
		if err != nil {
			die("%v", err)
		}
		cut := 0
		for b, k := range keys {
			if *only >= 0 && b != *only {
				continue
			}
			evs := byInst[k]
			sort.Slice(evs, func(i, j int) bool { return evs[i].Seq < evs[j].Seq })
			start := tr.Lines() + 1
			tr.Emit(map[string]any{"ev": "reset"})
			applied := 0
		inst:
			for _, e := range evs {
				switch e.Ev {
				case "recover":
					var m map[string]kv.Pair
					if err := json.Unmarshal([]byte(e.Store), &m); err != nil {
						break inst
					}
					if len(m) > 300 {
						cut++
						break inst
					}
					pairs := []map[string]any{}
					hi := uint64(0)
					for _, p := range m {
						pairs = append(pairs, map[string]any{"k": splitKey(p.Key), "val": p.Value, "ver": p.Ver})
						if p.Ver > hi {
							hi = p.Ver
						}
					}
					tr.Emit(map[string]any{"ev": "adopt", "rep": 1, "pairs": pairs, "hi": hi})
				case "update":
					applied += len(e.Ents)
					if applied > *maxEnts {
						cut++
						break inst
					}
					ents := make([]map[string]any, 0, len(e.Ents))
					for _, x := range e.Ents {
						var u kv.Update
						if err := json.Unmarshal([]byte(x.Cmd), &u); err != nil {
							break inst
						}
						var p kv.Pair
						if err := json.Unmarshal([]byte(x.Data), &p); err != nil {
							die("result of entry %d does not decode: %v", x.I, err)
						}
						ents = append(ents, map[string]any{"i": x.I, "op": u.Op, "k": splitKey(u.KVPair.Key), "val": u.KVPair.Value, "ver": u.KVPair.Ver,
							"code": x.Val, "rk": splitKey(p.Key), "rval": p.Value, "rver": p.Ver})
					}
					tr.Emit(map[string]any{"ev": "update", "rep": 1, "ents": ents})
				}
			}
			fmt.Printf("BEHAVIOUR %d lines %d-%d class 0\n", b, start, tr.Lines())
		}
		fmt.Fprintf(os.Stderr, "instances: %d, cut at a size limit: %d\n", len(keys), cut)
		if err := tr.Close(); err != nil {
			die("%v", err)
		}
		return 0
	}
}
