package main

import (
	"context"
	"flag"
	"fmt"
	"math/rand"
	"time"

	"github.com/jamf/regatta/regattapb"
	"github.com/jamf/regatta/regattaserver"
	"github.com/jamf/regatta/storage"
	"github.com/lni/dragonboat/v4"
	"go.uber.org/zap"
	"google.golang.org/grpc/metadata"

	"verif/harness/internal/eng"
	"verif/harness/internal/tracer"
)

// logengine : C06 end to end. A real engine (real Raft log, real log reader with or without the cache, real compaction
// whose LogCompacted event travels through the engine's event dispatcher) behind the real LogServer.Replicate. The
// driver writes, compacts and asks for the log from every interesting index - sequentially, so that the applied index
// and the compaction point of every call are known exactly. Some entries are proposed with a leader index of their own
// inside the command (a table that was itself fed by replication or restored from a leader snapshot).

type colStream struct {
	ctx  context.Context
	msgs []map[string]any
}

func (r *colStream) SetHeader(metadata.MD) error  { return nil }
func (r *colStream) SendHeader(metadata.MD) error { return nil }
func (r *colStream) SetTrailer(metadata.MD)       {}
func (r *colStream) Context() context.Context     { return r.ctx }
func (r *colStream) SendMsg(interface{}) error    { return nil }
func (r *colStream) RecvMsg(interface{}) error    { return nil }
func (r *colStream) Send(m *regattapb.ReplicateResponse) error {
	ev := map[string]any{"li": m.LeaderIndex, "idx": []uint64{}, "labels": []uint64{}, "keys": []string{}}
	switch x := m.Response.(type) {
	case *regattapb.ReplicateResponse_ErrorResponse:
		ev["kind"] = x.ErrorResponse.Error.String()
	case *regattapb.ReplicateResponse_CommandsResponse:
		ev["kind"] = "CMDS"
		idx, labels, keys := []uint64{}, []uint64{}, []string{}
		for _, c := range x.CommandsResponse.Commands {
			idx = append(idx, c.LeaderIndex)
			li := uint64(0)
			if c.Command.LeaderIndex != nil {
				li = *c.Command.LeaderIndex
			}
			labels = append(labels, li)
			// what the command IS: type, key, and whether / which range end it carries
			k := ""
			if c.Command.Type != regattapb.Command_DUMMY && c.Command.Kv != nil {
				k = fmt.Sprintf("%s %s", c.Command.Type, c.Command.Kv.Key)
				if c.Command.RangeEnd != nil {
					k += fmt.Sprintf(" end=%q", c.Command.RangeEnd)
				}
			}
			keys = append(keys, k)
		}
		ev["idx"], ev["labels"], ev["keys"] = idx, labels, keys
	default:
		ev["kind"] = "EMPTY"
	}
	r.msgs = append(r.msgs, ev)
	return nil
}

func logEngineRun(tr *tracer.T, rng *rand.Rand) {
	tr.Emit(map[string]any{"ev": "reset"})
	cache := []int{0, 4, 64, 1000}[rng.Intn(4)]
	c, err := eng.New(1, cache, func(i int, c *storage.Config) { c.Table.SnapshotEntries = 0 })
	if err != nil {
		die("engine: %v", err)
	}
	defer c.Close()
	e := c.Engines[0]
	if err := c.CreateTable("t"); err != nil {
		die("%v", err)
	}
	at, err := e.GetTable("t")
	if err != nil {
		die("%v", err)
	}
	maxMsg := []uint64{0, 400, 2000, 64 * 1024}[rng.Intn(4)]
	ls := regattaserver.NewLogServer(e, e.LogReader, zap.NewNop(), maxMsg)
	lr, err := e.NodeHost.GetLogReader(at.ClusterID)
	if err != nil {
		die("log reader: %v", err)
	}
	written := map[uint64]string{} // log index -> key of the command at that index
	applied := func() uint64 {
		ctx, cancel := context.WithTimeout(context.Background(), 5*time.Second)
		defer cancel()
		r, err := at.LocalIndex(ctx, true)
		if err != nil {
			die("local index: %v", err)
		}
		return r.Index
	}
	n := 0
	write := func() {
		n++
		key := fmt.Sprintf("k%d", n)
		val := make([]byte, 10+rng.Intn(300))
		ctx, cancel := context.WithTimeout(context.Background(), 5*time.Second)
		defer cancel()
		if rng.Intn(4) == 0 {
			// a command that carries a leader index of its own (as the proposals of a replication worker do)
			own := uint64(1000 + rng.Intn(1000))
			cmd := &regattapb.Command{Table: []byte("t"), Type: regattapb.Command_PUT, Kv: &regattapb.KeyValue{Key: []byte(key), Value: val}, LeaderIndex: &own}
			b, _ := cmd.MarshalVT()
			if _, err := e.NodeHost.SyncPropose(ctx, e.NodeHost.GetNoOPSession(at.ClusterID), b); err != nil {
				die("propose: %v", err)
			}
			written[applied()] = "PUT " + key
			return
		}
		switch rng.Intn(6) {
		case 0: // range delete
			end := []byte(key + "~")
			r, err := e.Delete(ctx, &regattapb.DeleteRangeRequest{Table: []byte("t"), Key: []byte(key), RangeEnd: end})
			if err != nil {
				die("delete: %v", err)
			}
			written[r.Header.Revision] = fmt.Sprintf("DELETE %s end=%q", key, end)
		case 1: // single-key delete
			r, err := e.Delete(ctx, &regattapb.DeleteRangeRequest{Table: []byte("t"), Key: []byte(key)})
			if err != nil {
				die("delete: %v", err)
			}
			written[r.Header.Revision] = fmt.Sprintf("DELETE %s", key)
		default:
			r, err := e.Put(ctx, &regattapb.PutRequest{Table: []byte("t"), Key: []byte(key), Value: val})
			if err != nil {
				die("put: %v", err)
			}
			written[r.Header.Revision] = "PUT " + key
		}
	}
	query := func(from uint64) {
		a := applied()
		first, _ := lr.GetRange()
		ctx, cancel := context.WithTimeout(context.Background(), 10*time.Second)
		st := &colStream{ctx: ctx}
		err := ls.Replicate(&regattapb.ReplicateRequest{Table: []byte("t"), LeaderIndex: from}, st)
		cancel()
		es := ""
		if err != nil {
			es = err.Error()
		}
		// what the log holds at the indices that were sent
		for _, m := range st.msgs {
			want := []string{}
			for _, i := range m["idx"].([]uint64) {
				want = append(want, written[i])
			}
			m["want"] = want
		}
		if st.msgs == nil {
			st.msgs = []map[string]any{}
		}
		tr.Emit(map[string]any{"ev": "equery", "from": from, "applied": a, "first": first, "msgs": st.msgs, "err": es, "cache": cache, "max": maxMsg})
	}
	compact := func() {
		before, _ := lr.GetRange()
		ctx, cancel := context.WithTimeout(context.Background(), 10*time.Second)
		_, err := e.NodeHost.SyncRequestSnapshot(ctx, at.ClusterID, dragonboat.SnapshotOption{OverrideCompactionOverhead: true, CompactionOverhead: uint64(rng.Intn(4))})
		cancel()
		if err != nil {
			return
		}
		// the compaction itself and the LogCompacted event (which empties the cache) follow asynchronously: wait until
		// the log's range has moved and a request for the last compacted index is answered accordingly (or 3 s passed)
		deadline := time.Now().Add(3 * time.Second)
		for time.Now().Before(deadline) {
			first, _ := lr.GetRange()
			if first > before && first > 1 {
				ctx, cancel := context.WithTimeout(context.Background(), 5*time.Second)
				st := &colStream{ctx: ctx}
				_ = ls.Replicate(&regattapb.ReplicateRequest{Table: []byte("t"), LeaderIndex: first - 1}, st)
				cancel()
				if len(st.msgs) == 1 && st.msgs[0]["kind"] == "USE_SNAPSHOT" {
					break
				}
			}
			time.Sleep(10 * time.Millisecond)
		}
		time.Sleep(20 * time.Millisecond)
	}
	for step := 0; step < 30; step++ {
		for i, k := 0, 1+rng.Intn(5); i < k; i++ {
			write()
		}
		a := applied()
		first, _ := lr.GetRange()
		// the whole log first (this is what fills the cache), then the interesting indices
		froms := []uint64{first, 1 + uint64(rng.Intn(int(a)+2))}
		if first > 1 {
			froms = append(froms, first-1)
		}
		froms = append(froms, first+1, a, a+1, a+2)
		if rng.Intn(2) == 0 {
			froms = froms[rng.Intn(len(froms)):]
		}
		for _, f := range froms {
			if f >= 1 {
				query(f)
			}
		}
		if rng.Intn(3) == 0 {
			compact()
			first, _ = lr.GetRange()
			for _, f := range []uint64{first - 1, first, first + 1, 1} {
				if f >= 1 && first > 1 {
					query(f)
				}
			}
		}
	}
}

func init() {
	subcmds["logengine"] = func(args []string) int {
		fs := flag.NewFlagSet("logengine", flag.ExitOnError)
		out := fs.String("out", "trace.ndjson", "trace")
		only := fs.Int("only", -1, "only behaviour k")
		seed := fs.Int64("seed", 1, "seed")
		n := fs.Int("n", 4, "behaviours")
		_ = fs.Parse(args)
		tr, err := tracer.New(*out)
		if err != nil {
			die("%v", err)
		}
		for b := 0; b < *n; b++ {
			if *only >= 0 && b != *only {
				continue
			}
			rng := rand.New(rand.NewSource(*seed*48611 + int64(b)))
			start := tr.Lines() + 1
			logEngineRun(tr, rng)
			fmt.Printf("BEHAVIOUR %d lines %d-%d class 0\n", b, start, tr.Lines())
		}
		if err := tr.Close(); err != nil {
			die("%v", err)
		}
		return 0
	}
}
