package main

import (
	"bytes"
	"context"
	"flag"
	"fmt"
	"math/rand"
	"net"
	"os"
	"sort"
	"sync"
	"sync/atomic"
	"time"

	"github.com/jamf/regatta/regattapb"
	"github.com/jamf/regatta/regattaserver"
	"github.com/jamf/regatta/replication"
	"github.com/jamf/regatta/storage"
	"github.com/jamf/regatta/storage/table/fsm"
	"github.com/lni/dragonboat/v4"
	sm "github.com/lni/dragonboat/v4/statemachine"
	"go.uber.org/zap"
	"google.golang.org/grpc"
	"google.golang.org/grpc/codes"
	"google.golang.org/grpc/credentials/insecure"
	"google.golang.org/grpc/status"

	"verif/harness/internal/eng"
	m "verif/harness/internal/model"
	"verif/harness/internal/tracer"
)

// repl : C05. A real leader engine behind the real replication gRPC services (Log, Snapshot, Metadata) on a
// loopback listener, and a real follower engine with the real replication.Manager. The leader executes a write
// history (non-idempotent transactions, range deletes, values large enough to split messages and proposals, log
// compaction, tables created and deleted) while the follower replicates; the follower's (leader index, content,
// leader index) is sampled all the time.

// followerNode is the node id of the follower engine: distinct from the leader's, so that the FSM.Update hook can
// tell the follower's state machines from the leader's (both engines live in this process)
const followerNode = 5

// gatedMeta is the real MetadataServer behind a lock: while the driver holds it, the follower's table
// reconciliation waits for its answer (a slow RPC)
type gatedMeta struct {
	regattapb.UnimplementedMetadataServer
	inner *regattaserver.MetadataServer
	mu    sync.RWMutex
}

func (g *gatedMeta) Get(ctx context.Context, req *regattapb.MetadataRequest) (*regattapb.MetadataResponse, error) {
	g.mu.RLock()
	defer g.mu.RUnlock()
	return g.inner.Get(ctx, req)
}

// faultyStream breaks a server stream after a number of messages (an RPC failing half way)
type faultyStream struct {
	grpc.ServerStream
	left int
}

func (f *faultyStream) SendMsg(m any) error {
	if f.left == 0 {
		return status.Error(codes.Unavailable, "injected stream failure")
	}
	f.left--
	return f.ServerStream.SendMsg(m)
}

type replEnv struct {
	logTimeout time.Duration
	leader     *storage.Engine
	follower   *storage.Engine
	fcfg       storage.Config
	srv        *grpc.Server
	conn       *grpc.ClientConn
	mgr        *replication.Manager
	queue      *storage.IndexNotificationQueue
	addr       string
}

func (e *replEnv) startFollowerReplication() {
	e.queue = storage.NewNotificationQueue()
	go e.queue.Run()
	q := e.queue
	eng.FreshGossip(&e.fcfg)
	fc := e.fcfg
	fc.Table.AppliedIndexListener = q.Notify
	f, err := eng.Single(fc)
	if err != nil {
		die("follower engine: %v", err)
	}
	e.follower = f
	// after a restart the catalogued shards are started by the table manager's reconcile loop, whose period is 30 s:
	// run that pass now instead of waiting for the timer
	for i := 0; i < 200; i++ {
		if err := f.Manager.VerifReconcile(); err == nil {
			break
		}
		time.Sleep(5 * time.Millisecond)
	}
	conn, err := grpc.Dial(e.addr, grpc.WithTransportCredentials(insecure.NewCredentials()),
		grpc.WithDefaultCallOptions(grpc.MaxCallRecvMsgSize(8*1024*1024)))
	if err != nil {
		die("dial: %v", err)
	}
	e.conn = conn
	e.mgr = replication.NewManager(f, q, conn, replication.Config{
		ReconcileInterval: 40 * time.Millisecond,
		Workers: replication.WorkerConfig{PollInterval: 15 * time.Millisecond, LeaseInterval: 10 * time.Millisecond,
			LogRPCTimeout: e.logTimeout, SnapshotRPCTimeout: 30 * time.Second, MaxRecoveryInFlight: 1},
	})
	if err := e.mgr.Start(); err != nil {
		die("replication manager: %v", err)
	}
}

func (e *replEnv) stopFollower() {
	e.mgr.Close()
	e.conn.Close()
	e.follower.Close()
	e.queue.Close()
	e.follower = nil
}

type lWrite struct {
	table string
	inc   int // incarnation of the table on the leader (a table deleted and created again is another table)
	rev   uint64
	cmd   m.Cmd
	val   int
	rs    []m.Resp
}

// classes of behaviours: 0 random history; 1 recovery from a snapshot of a FAT table under back-to-back writes;
// 2 the follower's state machine stalls for longer than the log RPC timeout (proposals time out but commit);
// 3 a table is deleted and created again on the leader (once slowly, once faster than the follower looks)
func replRun(tr *tracer.T, rng *rand.Rand, nOps int, class int, variant int) {
	if os.Getenv("VDRIVE_DEBUG") != "" {
		l, _ := zap.NewDevelopment()
		zap.ReplaceGlobals(l)
	}
	tr.Emit(map[string]any{"ev": "reset"})
	// the follower's state machines can be stalled
	var stallMu sync.Mutex
	stallCond := sync.NewCond(&stallMu)
	stalled := false
	fsm.VerifUpdateHook = func(shard, replica uint64, ents []sm.Entry) {
		if replica != followerNode {
			return
		}
		stallMu.Lock()
		for stalled {
			stallCond.Wait()
		}
		stallMu.Unlock()
	}
	setStall := func(v bool) {
		stallMu.Lock()
		stalled = v
		stallCond.Broadcast()
		stallMu.Unlock()
	}
	defer func() { setStall(false); fsm.VerifUpdateHook = nil }()
	maxMsg := []uint64{0, 300 * 1024, 1024 * 1024, 64 * 1024}[rng.Intn(4)]
	lc, err := eng.New(1, []int{0, 8, 64, 1000}[rng.Intn(4)], func(i int, c *storage.Config) {
		c.Table.SnapshotEntries = 0 // snapshots / compaction only when the driver asks
	})
	if err != nil {
		die("leader: %v", err)
	}
	leader := lc.Engines[0]
	defer lc.Close()
	lis, err := net.Listen("tcp", "127.0.0.1:0")
	if err != nil {
		die("listen: %v", err)
	}
	// some replication streams (log and snapshot) fail after a few messages
	var faults atomic.Bool
	var frng = rand.New(rand.NewSource(rng.Int63()))
	var frngMu sync.Mutex
	inject := func(srv any, ss grpc.ServerStream, info *grpc.StreamServerInfo, handler grpc.StreamHandler) error {
		if faults.Load() {
			frngMu.Lock()
			hit, left := frng.Intn(5) == 0, frng.Intn(3)
			frngMu.Unlock()
			if hit {
				return handler(srv, &faultyStream{ServerStream: ss, left: left})
			}
		}
		return handler(srv, ss)
	}
	srv := grpc.NewServer(grpc.MaxSendMsgSize(16*1024*1024), grpc.MaxRecvMsgSize(16*1024*1024), grpc.StreamInterceptor(inject))
	meta := &gatedMeta{inner: &regattaserver.MetadataServer{Tables: leader}}
	regattapb.RegisterMetadataServer(srv, meta)
	regattapb.RegisterSnapshotServer(srv, &regattaserver.SnapshotServer{Tables: leader})
	regattapb.RegisterLogServer(srv, regattaserver.NewLogServer(leader, leader.LogReader, zap.NewNop(), maxMsg))
	go srv.Serve(lis)
	defer srv.Stop()
	// follower configuration (kept for restarts on the same file systems)
	fcfg := eng.SingleConfig("follower")
	fcfg.InitialMembers = map[uint64]string{followerNode: fcfg.InitialMembers[fcfg.NodeID]}
	fcfg.NodeID = followerNode
	env := &replEnv{leader: leader, fcfg: fcfg, addr: lis.Addr().String(), logTimeout: 10 * time.Second}
	if class == 2 {
		env.logTimeout = 150 * time.Millisecond
	}
	faults.Store(class == 0 && rng.Intn(2) == 0)

	tables := []string{"t1"}
	if err := lc.CreateTable("t1"); err != nil {
		die("%v", err)
	}
	var mu sync.Mutex
	var writes []lWrite
	// (the last two: the largest keys the API accepts, at the very end of the keyspace)
	keys := [][]byte{[]byte("a"), []byte("b"), []byte("c"), []byte("flag"), bytes.Repeat([]byte{0xff}, 1019), bytes.Repeat([]byte{0xff}, 1024)}
	ctxT := func() (context.Context, context.CancelFunc) {
		return context.WithTimeout(context.Background(), 10*time.Second)
	}
	big := func() []byte {
		v := make([]byte, []int{100 * 1024, 250 * 1024, 30 * 1024}[rng.Intn(3)])
		for i := range v {
			v[i] = byte(rng.Intn(256))
		}
		return v
	}
	uniq := 0
	incOf := map[string]int{}
	heavy := false // backlog phase: many large commands, so that messages and proposals are cut and snapshots take a while
	write := func(tbl string) {
		k := keys[rng.Intn(len(keys))]
		uniq++
		v := []byte(fmt.Sprintf("v%d", uniq))
		if rng.Intn(6) == 0 || (heavy && rng.Intn(2) == 0) {
			v = big()
		}
		ctx, cancel := ctxT()
		defer cancel()
		w := lWrite{table: tbl, inc: incOf[tbl]}
		switch x := rng.Intn(12); {
		case x >= 10:
			// ONCE-MARKER: the first application creates u<n>, any further application creates d<n> - a command
			// that took effect twice stays visible for ever
			u, d := []byte(fmt.Sprintf("u%04d", uniq)), []byte(fmt.Sprintf("d%04d", uniq))
			t := m.Cmd{T: "TXN", Cmp: []m.Cmp{{K: u, Res: "EQUAL", HasVal: true, Val: []byte("1")}},
				Succ: []m.Op{{T: "put", K: d, V: []byte("dup")}},
				Fail: []m.Op{{T: "put", K: u, V: []byte("1")}}}
			pb := t.TxnPB()
			w.cmd = t
			r, err := leader.Txn(ctx, &regattapb.TxnRequest{Table: []byte(tbl), Compare: pb.Compare, Success: pb.Success, Failure: pb.Failure})
			if err != nil {
				die("leader txn: %v", err)
			}
			w.rev, w.rs = r.Header.Revision, m.RespsFromPB(r.Responses)
			if r.Succeeded {
				w.val = 1
			}
		case x < 3:
			w.cmd = m.Cmd{T: "PUT", K: k, V: v}
			r, err := leader.Put(ctx, &regattapb.PutRequest{Table: []byte(tbl), Key: k, Value: v})
			if err != nil {
				die("leader put: %v", err)
			}
			w.rev, w.val, w.rs = r.Header.Revision, 1, []m.Resp{{T: "put"}}
		case x == 9:
			// a SINGLE-key delete (after range deletes: the stream must not hand the follower a range)
			w.cmd = m.Cmd{T: "DEL", K: k, Count: true}
			r, err := leader.Delete(ctx, &regattapb.DeleteRangeRequest{Table: []byte(tbl), Key: k, Count: true})
			if err != nil {
				die("leader delete: %v", err)
			}
			w.rev, w.val, w.rs = r.Header.Revision, 1, []m.Resp{{T: "del", Deleted: r.Deleted}}
		case x < 4:
			w.cmd = m.Cmd{T: "DEL", K: []byte("a"), End: m.End{Has: true, B: []byte("c")}, Count: true}
			r, err := leader.Delete(ctx, &regattapb.DeleteRangeRequest{Table: []byte(tbl), Key: []byte("a"), RangeEnd: []byte("c"), Count: true})
			if err != nil {
				die("leader delete: %v", err)
			}
			w.rev, w.val, w.rs = r.Header.Revision, 1, []m.Resp{{T: "del", Deleted: r.Deleted}}
		default:
			// NON-IDEMPOTENT: applying it twice gives a different table than applying it once
			t := m.Cmd{T: "TXN", Cmp: []m.Cmp{{K: []byte("flag"), Res: "EQUAL", HasVal: true, Val: []byte("x")}},
				Succ: []m.Op{{T: "put", K: []byte("flag"), V: []byte("y")}, {T: "put", K: k, V: v}},
				Fail: []m.Op{{T: "put", K: []byte("flag"), V: []byte("x")}, {T: "del", K: k}}}
			pb := t.TxnPB()
			w.cmd = t
			r, err := leader.Txn(ctx, &regattapb.TxnRequest{Table: []byte(tbl), Compare: pb.Compare, Success: pb.Success, Failure: pb.Failure})
			if err != nil {
				die("leader txn: %v", err)
			}
			w.rev, w.rs = r.Header.Revision, m.RespsFromPB(r.Responses)
			if r.Succeeded {
				w.val = 1
			}
		}
		mu.Lock()
		writes = append(writes, w)
		mu.Unlock()
	}
	compact := func(tbl string) {
		t, err := leader.GetTable(tbl)
		if err != nil {
			return
		}
		ctx, cancel := ctxT()
		defer cancel()
		_, _ = leader.NodeHost.SyncRequestSnapshot(ctx, t.ClusterID, dragonboat.SnapshotOption{OverrideCompactionOverhead: true, CompactionOverhead: 1})
		time.Sleep(20 * time.Millisecond)
	}
	// ---- sampling of the follower
	type obs struct {
		table    string
		fid      uint64 // the follower's shard: a table the follower deleted and created again is another table
		inc      int    // the leader incarnation this follower table replicates
		stale    bool   // taken after the leader deleted (and recreated) the table this follower shard replicated
		li1, li2 uint64
		kvs      []m.KV
	}
	// set by the recreate scenario: the follower shard that replicated the first incarnation of t2
	var recreated atomic.Bool
	var oldFid atomic.Uint64
	var obsMu sync.Mutex
	var observations []obs
	var sampleMu sync.RWMutex // the follower engine is never closed while a sample (an open iterator) is in progress
	sample := func() {
		sampleMu.RLock()
		defer sampleMu.RUnlock()
		f := env.follower
		if f == nil {
			return
		}
		for _, tbl := range []string{"t1", "t2"} {
			t, err := f.GetTable(tbl)
			if err != nil {
				continue
			}
			ctx, cancel := context.WithTimeout(context.Background(), 2*time.Second)
			a, err1 := t.LeaderIndex(ctx, false)
			it, err2 := t.Iterator(ctx, &regattapb.RangeRequest{Table: []byte(tbl), Key: []byte{0}, RangeEnd: []byte{0}})
			var kvs []m.KV
			if err2 == nil {
				func() {
					defer func() { _ = recover() }() // a read racing with a recovery may fail; it is then simply not an observation
					it(func(r *regattapb.ResponseOp_Range) bool {
						for _, p := range r.Kvs {
							kvs = append(kvs, m.KV{K: append([]byte{}, p.Key...), V: append([]byte{}, p.Value...)})
						}
						return true
					})
				}()
			}
			t2, err4 := f.GetTable(tbl)
			b, err3 := t.LeaderIndex(ctx, false)
			cancel()
			if err1 != nil || err2 != nil || err3 != nil || err4 != nil || t2.ClusterID != t.ClusterID {
				continue
			}
			if kvs == nil {
				kvs = []m.KV{}
			}
			inc, stale := 0, false
			if tbl == "t2" && recreated.Load() {
				if t.ClusterID != oldFid.Load() {
					inc = 1
				} else {
					stale = true
				}
			}
			obsMu.Lock()
			observations = append(observations, obs{tbl, t.ClusterID, inc, stale, a.Index, b.Index, kvs})
			obsMu.Unlock()
		}
	}
	stopSampling := make(chan struct{})
	var swg sync.WaitGroup
	swg.Add(1)
	go func() {
		defer swg.Done()
		for {
			select {
			case <-stopSampling:
				return
			default:
			}
			sample()
			time.Sleep(time.Duration(1+rand.Intn(4)) * time.Millisecond)
		}
	}()
	// ---- the history
	pre := rng.Intn(nOps)
	heavy = rng.Intn(5) < 2
	if heavy && pre < 25 {
		pre = 25
	}
	if class == 1 {
		// a FAT table (unique keys, 8-16 MiB): streaming its snapshot takes long enough for many writes to land meanwhile
		for i, n := 0, 80+rng.Intn(80); i < n; i++ {
			k, v := []byte(fmt.Sprintf("p%03d", i)), make([]byte, 100*1024)
			for j := range v {
				v[j] = byte(rng.Intn(256))
			}
			ctx, cancel := ctxT()
			r, err := leader.Put(ctx, &regattapb.PutRequest{Table: []byte("t1"), Key: k, Value: v})
			cancel()
			if err != nil {
				die("leader put (preload): %v", err)
			}
			writes = append(writes, lWrite{table: "t1", rev: r.Header.Revision, cmd: m.Cmd{T: "PUT", K: k, V: v}, val: 1, rs: []m.Resp{}})
		}
	}
	for i := 0; i < pre; i++ {
		write("t1")
	}
	heavy = false
	if class == 1 || rng.Intn(5) < 3 {
		compact("t1") // the follower starts after the leader compacted its log: recovery from a snapshot
	}
	// a second client keeps writing small commands back to back while the follower starts (and, if the log was
	// compacted, recovers from a snapshot stream): the stream must be a point-in-time image at the index it declares
	hammerStop := make(chan struct{})
	var hwg sync.WaitGroup
	hwg.Add(1)
	go func() {
		defer hwg.Done()
		for i := 0; ; i++ {
			select {
			case <-hammerStop:
				return
			default:
			}
			k := []byte(fmt.Sprintf("h%03d", i)) // unique keys: a write lost by the follower stays visible
			ctx, cancel := ctxT()
			r, err := leader.Put(ctx, &regattapb.PutRequest{Table: []byte("t1"), Key: k, Value: []byte{byte(i)}})
			cancel()
			if err != nil {
				die("leader put (hammer): %v", err)
			}
			mu.Lock()
			writes = append(writes, lWrite{table: "t1", rev: r.Header.Revision, cmd: m.Cmd{T: "PUT", K: k, V: []byte{byte(i)}}, val: 1, rs: []m.Resp{}})
			mu.Unlock()
			if i >= 400 {
				return // keep the validated history small
			}
			time.Sleep(700 * time.Microsecond)
		}
	}()
	// ANOTHER follower cluster tails the same table: a client of the real Log service that keeps asking for the newest
	// entries (and throws them away) - it shapes the leader's log cache while the follower under test catches up
	tailStop := make(chan struct{})
	var twg sync.WaitGroup
	twg.Add(1)
	go func() {
		defer twg.Done()
		conn, err := grpc.Dial(env.addr, grpc.WithTransportCredentials(insecure.NewCredentials()), grpc.WithDefaultCallOptions(grpc.MaxCallRecvMsgSize(16*1024*1024)))
		if err != nil {
			return
		}
		defer conn.Close()
		cl := regattapb.NewLogClient(conn)
		next := uint64(1)
		for {
			select {
			case <-tailStop:
				return
			case <-time.After(time.Duration(2+rand.Intn(6)) * time.Millisecond):
			}
			mu.Lock()
			for _, w := range writes {
				if w.table == "t1" && w.rev >= next {
					next = w.rev // start near the tail, as a follower that has been following all along
				}
			}
			mu.Unlock()
			ctx, cancel := context.WithTimeout(context.Background(), 2*time.Second)
			st, err := cl.Replicate(ctx, &regattapb.ReplicateRequest{Table: []byte("t1"), LeaderIndex: next})
			if err == nil {
				for {
					m, err := st.Recv()
					if err != nil {
						break
					}
					if c := m.GetCommandsResponse(); c != nil && len(c.Commands) > 0 {
						next = c.Commands[len(c.Commands)-1].LeaderIndex + 1
					}
				}
			}
			cancel()
		}
	}()
	defer func() { close(tailStop); twg.Wait() }()
	env.startFollowerReplication()
	time.Sleep(time.Duration(100+rng.Intn(200)) * time.Millisecond)
	if class == 1 {
		// keep writing until the follower has installed the snapshot
		for deadline := time.Now().Add(10 * time.Second); time.Now().Before(deadline); time.Sleep(5 * time.Millisecond) {
			if t, err := env.follower.GetTable("t1"); err == nil {
				ctx, cancel := context.WithTimeout(context.Background(), time.Second)
				li, err := t.LeaderIndex(ctx, false)
				cancel()
				if err == nil && li.Index > 0 {
					break
				}
			}
		}
	}
	close(hammerStop)
	hwg.Wait()
	lastRevOf := func() map[string]uint64 {
		mu.Lock()
		defer mu.Unlock()
		last := map[string]uint64{}
		for _, w := range writes {
			if w.inc == incOf[w.table] && w.rev > last[w.table] {
				last[w.table] = w.rev
			}
		}
		return last
	}
	// the follower has every leader table and has recorded (at least) the leader's last index of each
	waitConverged := func(d time.Duration) bool {
		lastRev := lastRevOf()
		deadline := time.Now().Add(d)
		for time.Now().Before(deadline) {
			ok := true
			ft, err := env.follower.GetTables()
			if err != nil || len(ft) != len(tables) {
				ok = false
			}
			for _, tbl := range tables {
				t, err := env.follower.GetTable(tbl)
				if err != nil {
					ok = false
					break
				}
				ctx, cancel := context.WithTimeout(context.Background(), time.Second)
				li, err := t.LeaderIndex(ctx, false)
				cancel()
				if err != nil || li.Index < lastRev[tbl] {
					ok = false
				}
			}
			if ok {
				return true
			}
			time.Sleep(10 * time.Millisecond)
		}
		return false
	}
	onceMarkers := func(tbl string, n int) {
		for i := 0; i < n; i++ {
			uniq++
			u, d := []byte(fmt.Sprintf("u%04d", uniq)), []byte(fmt.Sprintf("d%04d", uniq))
			t := m.Cmd{T: "TXN", Cmp: []m.Cmp{{K: u, Res: "EQUAL", HasVal: true, Val: []byte("1")}},
				Succ: []m.Op{{T: "put", K: d, V: []byte("dup")}},
				Fail: []m.Op{{T: "put", K: u, V: []byte("1")}}}
			pb := t.TxnPB()
			ctx, cancel := ctxT()
			r, err := leader.Txn(ctx, &regattapb.TxnRequest{Table: []byte(tbl), Compare: pb.Compare, Success: pb.Success, Failure: pb.Failure})
			cancel()
			if err != nil {
				die("leader txn: %v", err)
			}
			w := lWrite{table: tbl, inc: incOf[tbl], cmd: t, rev: r.Header.Revision, rs: m.RespsFromPB(r.Responses)}
			if r.Succeeded {
				w.val = 1
			}
			mu.Lock()
			writes = append(writes, w)
			mu.Unlock()
		}
	}
	switch class {
	case 2:
		// the follower's state machine stops applying for longer than the log RPC timeout while the leader goes on:
		// the worker's proposals time out although they are committed and will be applied, and it polls again
		for round := 0; round < 2; round++ {
			if !waitConverged(20 * time.Second) {
				break
			}
			setStall(true)
			// the first proposal (markers A) parks in the state machine and times out; the leader goes on (markers B),
			// so the next proposals carry A again TOGETHER with B, and are themselves proposed more than once: after
			// the stall the first copy of B and its repetitions are applied in ONE Update batch
			onceMarkers("t1", 1+rng.Intn(3))
			time.Sleep(env.logTimeout*3/2 + time.Duration(rng.Intn(40))*time.Millisecond)
			onceMarkers("t1", 1+rng.Intn(3))
			time.Sleep(env.logTimeout*time.Duration(2+rng.Intn(2)) + time.Duration(rng.Intn(60))*time.Millisecond)
			setStall(false)
			for j := 0; j < 5; j++ {
				write("t1")
			}
		}
	case 3:
		// t2 is created, written, deleted and created again on the leader
		if err := lc.CreateTable("t2"); err != nil {
			die("%v", err)
		}
		tables = append(tables, "t2")
		for j := 0; j < 12; j++ {
			write("t2")
		}
		recreate := func(hold bool) {
			if !waitConverged(20 * time.Second) {
				return
			}
			ft, err := env.follower.GetTable("t2")
			if err != nil {
				return
			}
			oldFid.Store(ft.ClusterID)
			if hold {
				// faster than the follower looks: its metadata request is being answered slowly meanwhile
				meta.mu.Lock()
			}
			recreated.Store(true)
			if err := leader.DeleteTable("t2"); err != nil {
				die("delete t2: %v", err)
			}
			if !hold {
				// slowly: the follower sees the leader without t2 and drops its copy
				deadline := time.Now().Add(20 * time.Second)
				for time.Now().Before(deadline) {
					if _, err := env.follower.GetTable("t2"); err != nil {
						break
					}
					time.Sleep(5 * time.Millisecond)
				}
			}
			if err := lc.CreateTable("t2"); err != nil {
				die("recreate t2: %v", err)
			}
			mu.Lock()
			incOf["t2"]++
			mu.Unlock()
			if hold {
				meta.mu.Unlock()
			}
			for j := 0; j < 4; j++ {
				write("t2")
			}
		}
		recreate(variant%2 == 0)
	}
	for i := 0; i < nOps; i++ {
		write(tables[rng.Intn(len(tables))])
		switch rng.Intn(25) {
		case 0:
			compact("t1")
		case 1:
			if len(tables) == 1 {
				if err := lc.CreateTable("t2"); err == nil {
					tables = append(tables, "t2")
				}
			}
		case 2:
			// follower engine restart on the same file systems
			sampleMu.Lock()
			env.stopFollower()
			sampleMu.Unlock()
			for j := 0; j < 5; j++ {
				write("t1")
			}
			sampleMu.Lock()
			env.startFollowerReplication()
			sampleMu.Unlock()
		}
		if rng.Intn(3) == 0 {
			time.Sleep(time.Duration(rng.Intn(8)) * time.Millisecond)
		}
	}
	deleted := ""
	if len(tables) == 2 && class != 3 && rng.Intn(2) == 0 {
		if err := leader.DeleteTable("t2"); err == nil {
			deleted = "t2"
			tables = tables[:1]
		}
	}
	// ---- quiet: the follower must reach the leader's latest state and table set
	faults.Store(false)
	lastRev := lastRevOf()
	converged := waitConverged(30 * time.Second)
	close(stopSampling)
	swg.Wait()
	sample()
	// ---- emit
	// leader writes in revision order; every follower sample is placed right after the last write it may contain
	// (its recorded leader index), so the specification compares it with the leader content AT that index.
	// The order in which the samples were taken is kept in "prev" (the index seen by the previous sample).
	type mev struct {
		inc  int
		idx  uint64
		kind int // 0 write, 1 observation
		ev   map[string]any
	}
	var merged []mev
	for _, w := range writes {
		merged = append(merged, mev{w.inc, w.rev, 0, map[string]any{"ev": "lwrite", "table": w.table, "rev": w.rev, "c": w.cmd, "val": w.val, "rs": w.rs}})
	}
	if incOf["t2"] > 0 {
		merged = append(merged, mev{1, 0, -1, map[string]any{"ev": "lrecreate", "table": "t2"}})
	}
	type tf struct {
		t string
		f uint64
	}
	prev := map[tf]uint64{}
	for _, o := range observations {
		merged = append(merged, mev{o.inc, o.li1, 1, map[string]any{"ev": "fobs", "table": o.table, "li1": o.li1, "li2": o.li2, "kvs": o.kvs, "prev": prev[tf{o.table, o.fid}], "stale": o.stale}})
		prev[tf{o.table, o.fid}] = o.li2
	}
	sort.SliceStable(merged, func(i, j int) bool {
		if merged[i].inc != merged[j].inc {
			return merged[i].inc < merged[j].inc
		}
		if merged[i].idx != merged[j].idx {
			return merged[i].idx < merged[j].idx
		}
		return merged[i].kind < merged[j].kind
	})
	for _, e := range merged {
		tr.Emit(e.ev)
	}
	var fnames []string
	if ft, err := env.follower.GetTables(); err == nil {
		for _, t := range ft {
			fnames = append(fnames, t.Name)
		}
	}
	sort.Strings(fnames)
	if fnames == nil {
		fnames = []string{}
	}
	// the final content of every table on the follower (the leader's is the specification state after the last write)
	for _, tbl := range tables {
		kvs := []m.KV{}
		okRead := false
		if t, err := env.follower.GetTable(tbl); err == nil {
			ctx, cancel := context.WithTimeout(context.Background(), 5*time.Second)
			if it, err := t.Iterator(ctx, &regattapb.RangeRequest{Table: []byte(tbl), Key: []byte{0}, RangeEnd: []byte{0}}); err == nil {
				okRead = true
				it(func(r *regattapb.ResponseOp_Range) bool {
					for _, p := range r.Kvs {
						kvs = append(kvs, m.KV{K: append([]byte{}, p.Key...), V: append([]byte{}, p.Value...)})
					}
					return true
				})
			}
			cancel()
		}
		tr.Emit(map[string]any{"ev": "ffinal", "table": tbl, "read": okRead, "kvs": kvs})
	}
	final := map[string]any{"ev": "fquiet", "converged": converged, "leader_tables": tables, "follower_tables": fnames, "deleted": deleted, "last": lastRev}
	tr.Emit(final)
	sampleMu.Lock()
	env.stopFollower()
	sampleMu.Unlock()
}

func init() {
	subcmds["repl"] = func(args []string) int {
		fs := flag.NewFlagSet("repl", flag.ExitOnError)
		out := fs.String("out", "trace.ndjson", "trace")
		only := fs.Int("only", -1, "only behaviour k")
		seed := fs.Int64("seed", 1, "seed")
		n := fs.Int("n", 3, "behaviours")
		ops := fs.Int("ops", 60, "leader operations")
		force := fs.Int("class", -1, "force the class of every behaviour")
		_ = fs.Parse(args)
		tr, err := tracer.New(*out)
		if err != nil {
			die("%v", err)
		}
		for b := 0; b < *n; b++ {
			if *only >= 0 && b != *only {
				continue
			}
			rng := rand.New(rand.NewSource(*seed*15485863 + int64(b)))
			start := tr.Lines() + 1
			class := []int{1, 2, 3, 0, 0}[b%5]
			if *force >= 0 {
				class = *force
			}
			replRun(tr, rng, *ops, class, b/5)
			fmt.Printf("BEHAVIOUR %d lines %d-%d class %d\n", b, start, tr.Lines(), class)
		}
		if err := tr.Close(); err != nil {
			die("%v", err)
		}
		return 0
	}
}
