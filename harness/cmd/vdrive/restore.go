package main

import (
	"bytes"
	"context"
	"encoding/json"
	"flag"
	"fmt"
	"io"
	"math/rand"
	"os"
	"sync"
	"time"

	pvfs "github.com/cockroachdb/pebble/vfs"
	"github.com/jamf/regatta/regattapb"
	"github.com/jamf/regatta/replication/snapshot"
	"github.com/jamf/regatta/storage/kv"
	"github.com/jamf/regatta/storage/table"
	"github.com/lni/dragonboat/v4"

	m "verif/harness/internal/model"
	"verif/harness/internal/nh"
	"verif/harness/internal/tracer"
)

// restore : C07. Real Manager.Restore (readIntoTable -> Raft proposals -> FSM -> Pebble) fed with
// (a) synthetic record streams whose sizes are placed around the batching threshold MaxInMemLogSize/2,
// (b) real snapshot files produced by ActiveTable.Snapshot while a writer keeps writing.

type rsEnv struct {
	host *dragonboat.NodeHost
	mgr  *table.Manager
}

func newRsEnv(maxInMem uint64) *rsEnv {
	host, addr, err := nh.NewAuto(nil)
	if err != nil {
		die("%v", err)
	}
	rs := &kv.RaftStore{NodeHost: host, ClusterID: 1000}
	if err := rs.Start(kv.RaftConfig{NodeID: 1, ElectionRTT: 5, HeartbeatRTT: 1, SnapshotEntries: 1000, CompactionOverhead: 500, MaxInMemLogSize: 1024 * 1024, InitialMembers: map[uint64]string{1: addr}}); err != nil {
		die("raftstore start: %v", err)
	}
	ctx, cancel := context.WithTimeout(context.Background(), 20*time.Second)
	defer cancel()
	if err := rs.WaitForLeader(ctx); err != nil {
		die("no leader: %v", err)
	}
	mgr := table.NewManager(host, map[uint64]string{1: addr}, rs,
		table.Config{NodeID: 1, Table: table.TableConfig{ElectionRTT: 5, HeartbeatRTT: 1, SnapshotEntries: 100000, CompactionOverhead: 5000,
			MaxInMemLogSize: maxInMem, FS: pvfs.NewMem(), DataDir: "/tables", BlockCacheSize: 1 << 20, TableCacheSize: 64}})
	return &rsEnv{host: host, mgr: mgr}
}

func (e *rsEnv) readBack(tr *tracer.T, name string, rerr error) {
	es := ""
	if rerr != nil {
		es = rerr.Error()
		tr.Emit(map[string]any{"ev": "restored", "err": es, "kvs": []m.KV{}, "lidx": 0})
		return
	}
	at, err := e.mgr.GetTable(name)
	if err != nil {
		die("gettable: %v", err)
	}
	deadline := time.Now().Add(20 * time.Second)
	for {
		ctx, cancel := context.WithTimeout(context.Background(), 5*time.Second)
		// from the EMPTY key so that a phantom empty-key pair is visible
		it, err := at.Iterator(ctx, &regattapb.RangeRequest{Table: []byte(name), Key: []byte{}, RangeEnd: []byte{0}, Linearizable: true})
		if err == nil {
			var kvs []m.KV
			it(func(r *regattapb.ResponseOp_Range) bool {
				for _, p := range r.Kvs {
					kvs = append(kvs, m.KV{K: append([]byte{}, p.Key...), V: append([]byte{}, p.Value...)})
				}
				return true
			})
			li, err2 := at.LeaderIndex(ctx, true)
			cancel()
			if err2 != nil {
				die("leader index: %v", err2)
			}
			if kvs == nil {
				kvs = []m.KV{}
			}
			tr.Emit(map[string]any{"ev": "restored", "err": "", "kvs": kvs, "lidx": li.Index})
			return
		}
		cancel()
		if time.Now().After(deadline) {
			die("read back %s: %v", name, err)
		}
		time.Sleep(5 * time.Millisecond)
	}
}

type recReader struct {
	recs [][]byte
	pos  int
}

func (c *recReader) Read(p []byte) (int, error) {
	if c.pos >= len(c.recs) {
		return 0, io.EOF
	}
	n := copy(p, c.recs[c.pos])
	c.pos++
	return n, nil
}

type failingReader struct {
	recs      [][]byte
	pos       int
	failAfter int
}

func (c *failingReader) Read(p []byte) (int, error) {
	if c.pos >= c.failAfter {
		return 0, fmt.Errorf("injected stream failure")
	}
	n := copy(p, c.recs[c.pos])
	c.pos++
	return n, nil
}

// synthetic: sizes (in units) and threshold (in units) from TLC; unit bytes chosen by the driver
func rsSynthetic(tr *tracer.T, sizes []int, th int, rng *rand.Rand) {
	tr.Emit(map[string]any{"ev": "reset"})
	unit := []int{200, 1000, 5000}[rng.Intn(3)]
	maxInMem := uint64(2 * th * unit)
	e := newRsEnv(maxInMem)
	defer e.host.Close()
	// pre-restore content that must not survive
	if _, err := e.mgr.CreateTable("t"); err != nil {
		die("create: %v", err)
	}
	var pairs []m.KV
	rr := &recReader{}
	for i, s := range sizes {
		k := []byte(fmt.Sprintf("key-%03d", i))
		// record size = marshalled command size; choose the value so that the record has s*unit bytes
		cmd := &regattapb.Command{Table: []byte("t"), Type: regattapb.Command_PUT, Kv: &regattapb.KeyValue{Key: k}}
		base := cmd.SizeVT()
		vlen := s*unit - base - 4
		if vlen < 0 {
			vlen = 0
		}
		v := make([]byte, vlen)
		for j := range v {
			v[j] = byte(i + j)
		}
		cmd.Kv.Value = v
		b, _ := cmd.MarshalVT()
		rr.recs = append(rr.recs, b)
		pairs = append(pairs, m.KV{K: k, V: v})
	}
	li := uint64(100 + rng.Intn(100))
	fin, _ := (&regattapb.Command{Table: []byte("t"), Type: regattapb.Command_DUMMY, LeaderIndex: &li}).MarshalVT()
	rr.recs = append(rr.recs, fin)
	if pairs == nil {
		pairs = []m.KV{}
	}
	if rng.Intn(3) == 0 {
		// an earlier restore attempt breaks off after it has already proposed batches of OTHER content;
		// nothing of it may survive the retry
		stale := &failingReader{failAfter: 4}
		for i := 0; i < 6; i++ {
			v := make([]byte, 3*unit)
			b, _ := (&regattapb.Command{Table: []byte("t"), Type: regattapb.Command_PUT, Kv: &regattapb.KeyValue{Key: []byte(fmt.Sprintf("stale-%d", i)), Value: v}}).MarshalVT()
			stale.recs = append(stale.recs, b)
		}
		if err := e.mgr.Restore("t", stale); err == nil {
			die("the broken stream was restored without error")
		}
	}
	tr.Emit(map[string]any{"ev": "stream", "pairs": pairs, "li": li, "maxinmem": maxInMem, "sizes": sizes, "unit": unit})
	stopFlood := make(chan struct{})
	var fwg sync.WaitGroup
	if maxInMem != 0 && rng.Intn(3) == 0 {
		// the recovery shard is BUSY while the stream is loaded: its in-memory log is kept full (no-op commands with a
		// large table field, proposed by the driver), so that proposals of the restore are turned away with "system is
		// too busy" and have to be repeated
		fwg.Add(1)
		go func() {
			defer fwg.Done()
			filler, _ := (&regattapb.Command{Table: make([]byte, int(maxInMem/3)+1), Type: regattapb.Command_DUMMY}).MarshalVT()
			for {
				select {
				case <-stopFlood:
					return
				default:
				}
				tabs, err := e.mgr.GetTables()
				if err != nil {
					continue
				}
				for _, t := range tabs {
					if t.Name == "t" && t.RecoverID != 0 {
						for i := 0; i < 8; i++ {
							_, _ = e.host.Propose(e.host.GetNoOPSession(t.RecoverID), filler, 2*time.Second)
						}
					}
				}
				time.Sleep(200 * time.Microsecond)
			}
		}()
	}
	err := e.mgr.Restore("t", rr)
	close(stopFlood)
	fwg.Wait()
	e.readBack(tr, "t", err)
}

// point in time: snapshot taken by the real ActiveTable.Snapshot while a writer keeps writing
func rsPointInTime(tr *tracer.T, rng *rand.Rand, maxInMem uint64) {
	tr.Emit(map[string]any{"ev": "reset"})
	e := newRsEnv(maxInMem)
	defer e.host.Close()
	if _, err := e.mgr.CreateTable("src"); err != nil {
		die("create: %v", err)
	}
	var at table.ActiveTable
	deadline := time.Now().Add(20 * time.Second)
	put := func(k, v []byte, del bool) (uint64, error) {
		ctx, cancel := context.WithTimeout(context.Background(), 5*time.Second)
		defer cancel()
		if del {
			r, err := at.Delete(ctx, &regattapb.DeleteRangeRequest{Table: []byte("src"), Key: k})
			if err != nil {
				return 0, err
			}
			return r.Header.Revision, nil
		}
		r, err := at.Put(ctx, &regattapb.PutRequest{Table: []byte("src"), Key: k, Value: v})
		if err != nil {
			return 0, err
		}
		return r.Header.Revision, nil
	}
	for {
		var err error
		at, err = e.mgr.GetTable("src")
		if err == nil {
			if _, err = put([]byte("warm"), []byte("up"), false); err == nil {
				break
			}
		}
		if time.Now().After(deadline) {
			die("source table not ready: %v", err)
		}
		time.Sleep(5 * time.Millisecond)
	}
	type wr struct {
		rev  uint64
		k, v []byte
		del  bool
	}
	writes := []wr{}
	// "warm" was the first write; find its revision by rewriting it
	rev, _ := put([]byte("warm"), []byte("up"), false)
	writes = append(writes, wr{rev: rev, k: []byte("warm"), v: []byte("up")})
	var mu sync.Mutex
	stop := make(chan struct{})
	var wg sync.WaitGroup
	wg.Add(1)
	nkeys := 5 + rng.Intn(20)
	vsize := []int{1, 10, 2000, 40000}[rng.Intn(4)]
	if maxInMem != 0 && uint64(vsize) > maxInMem/8 {
		vsize = int(maxInMem / 8) // a single write must fit the configured in-memory log size
	}
	go func() {
		defer wg.Done()
		lr := rand.New(rand.NewSource(rng.Int63()))
		for i := 0; ; i++ {
			select {
			case <-stop:
				return
			default:
			}
			k := []byte(fmt.Sprintf("k%02d", lr.Intn(nkeys)))
			v := make([]byte, 1+lr.Intn(vsize))
			for j := range v {
				v[j] = byte(i + j)
			}
			del := lr.Intn(5) == 0
			rev, err := put(k, v, del)
			if err != nil {
				// an unacknowledged write may or may not have happened: the history is no longer known exactly
				die("source write failed, behaviour inconclusive: %v", err)
			}
			mu.Lock()
			writes = append(writes, wr{rev, k, v, del})
			mu.Unlock()
		}
	}()
	time.Sleep(time.Duration(5+rng.Intn(30)) * time.Millisecond)
	sf, err := snapshot.NewTemp()
	if err != nil {
		die("temp: %v", err)
	}
	defer func() { sf.Close(); os.Remove(sf.Path()) }()
	ctx, cancel := context.WithTimeout(context.Background(), 30*time.Second)
	resp, err := at.Snapshot(ctx, sf)
	cancel()
	if err != nil {
		die("snapshot: %v", err)
	}
	time.Sleep(5 * time.Millisecond)
	close(stop)
	wg.Wait()
	// the final DUMMY with the declared index, as SnapshotServer.Stream and BackupServer append it
	fin, _ := (&regattapb.Command{Table: []byte("src"), Type: regattapb.Command_DUMMY, LeaderIndex: &resp.Index}).MarshalVT()
	if _, err := sf.Write(fin); err != nil {
		die("write final: %v", err)
	}
	if err := sf.Sync(); err != nil {
		die("sync: %v", err)
	}
	for _, w := range writes {
		tr.Emit(map[string]any{"ev": "write", "rev": w.rev, "k": m.K(w.k), "v": m.V(w.v), "del": w.del})
	}
	// read the stream content back from the file with the real reader
	if _, err := sf.Seek(0, io.SeekStart); err != nil {
		die("seek: %v", err)
	}
	rd, err := snapshot.OpenFile(sf.Path())
	if err != nil {
		die("open: %v", err)
	}
	var pairs []m.KV
	buf := make([]byte, 4*1024*1024)
	for {
		n, err := rd.Read(buf)
		if err == io.EOF {
			break
		}
		if err != nil {
			die("read snapshot: %v", err)
		}
		c := &regattapb.Command{}
		if err := c.UnmarshalVT(buf[:n]); err != nil {
			die("unmarshal: %v", err)
		}
		if c.Type == regattapb.Command_PUT {
			pairs = append(pairs, m.KV{K: append([]byte{}, c.Kv.Key...), V: append([]byte{}, c.Kv.Value...)})
		}
	}
	rd.Close()
	if pairs == nil {
		pairs = []m.KV{}
	}
	tr.Emit(map[string]any{"ev": "snapshot", "index": resp.Index, "pairs": pairs})
	// restore it into a table that already has other content
	if _, err := e.mgr.CreateTable("dst"); err != nil {
		die("create dst: %v", err)
	}
	rd2, err := snapshot.OpenFile(sf.Path())
	if err != nil {
		die("open: %v", err)
	}
	defer rd2.Close()
	rerr := e.mgr.Restore("dst", rd2)
	e.readBack(tr, "dst", rerr)
}

func init() {
	subcmds["restore"] = func(args []string) int {
		fs := flag.NewFlagSet("restore", flag.ExitOnError)
		out := fs.String("out", "trace.ndjson", "trace")
		only := fs.Int("only", -1, "only behaviour k")
		in := fs.String("in", "", "TLC-generated (sizes, threshold) cases")
		seed := fs.Int64("seed", 1, "seed")
		pit := fs.Int("pit", 4, "number of point-in-time snapshot behaviours")
		_ = fs.Parse(args)
		tr, err := tracer.New(*out)
		if err != nil {
			die("%v", err)
		}
		var lines [][]byte
		if *in != "" {
			data, err := os.ReadFile(*in)
			if err != nil {
				die("%v", err)
			}
			lines = bytes.Split(bytes.TrimSpace(data), []byte("\n"))
		}
		b := 0
		for _, line := range lines {
			if *only < 0 || *only == b {
				var x struct {
					Sizes []int `json:"sizes"`
					Th    int   `json:"th"`
				}
				if err := json.Unmarshal(line, &x); err != nil {
					die("bad case: %v", err)
				}
				rng := rand.New(rand.NewSource(*seed*9973 + int64(b)))
				start := tr.Lines() + 1
				rsSynthetic(tr, x.Sizes, x.Th, rng)
				fmt.Printf("BEHAVIOUR %d lines %d-%d class 0\n", b, start, tr.Lines())
			}
			b++
		}
		for i := 0; i < *pit; i++ {
			if *only < 0 || *only == b {
				rng := rand.New(rand.NewSource(*seed*9973 + int64(b)))
				start := tr.Lines() + 1
				rsPointInTime(tr, rng, []uint64{0, 4096, 100000, 6 * 1024 * 1024}[rng.Intn(4)])
				fmt.Printf("BEHAVIOUR %d lines %d-%d class 1\n", b, start, tr.Lines())
			}
			b++
		}
		if err := tr.Close(); err != nil {
			die("%v", err)
		}
		return 0
	}
}
