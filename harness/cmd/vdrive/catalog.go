package main

import (
	"bytes"
	"context"
	"encoding/json"
	"errors"
	"flag"
	"fmt"
	"io"
	"math/rand"
	"os"
	"sort"
	"strconv"
	"strings"
	"time"

	pvfs "github.com/cockroachdb/pebble/vfs"
	"github.com/jamf/regatta/regattapb"
	serrors "github.com/jamf/regatta/storage/errors"
	"github.com/jamf/regatta/storage/kv"
	"github.com/jamf/regatta/storage/table"
	"github.com/lni/dragonboat/v4"

	"verif/harness/internal/gate"
	"verif/harness/internal/nh"
	"verif/harness/internal/tracer"
)

// catalog : C14. Real table.Manager instances (create / delete / list / restore) over one real
// kv.RaftStore and one real NodeHost (shards really start, data really goes through Raft + Pebble);
// every metadata-store call is released by a gate in the order of a TLC-generated schedule.

type catStore struct {
	inner  rawStore
	n      int
	s      *gate.Sched
	tr     *tracer.T
	prefix string // per-behaviour namespace is not possible (keys are fixed by the code): a fresh store per behaviour is used instead
}

func keyKind(key string) (kind, name string) {
	switch {
	case key == "/tables/sys/idseq":
		return "seq", ""
	case strings.HasPrefix(key, "/tables/") && !strings.HasSuffix(key, "/lease"):
		return "tab", strings.TrimPrefix(key, "/tables/") // the name as the store sees it, slashes and all
	default:
		return "other", key
	}
}

func decodeTab(v string) (string, uint64, uint64) {
	var t table.Table
	_ = json.Unmarshal([]byte(v), &t)
	return t.Name, t.ClusterID, t.RecoverID
}

func (g *catStore) Exists(key string) (bool, error) {
	g.s.Gate(g.n - 1)
	ok, err := g.inner.Exists(key)
	if err != nil {
		die("store exists: %v", err)
	}
	kind, name := keyKind(key)
	if kind == "other" {
		g.tr.Emit(map[string]any{"ev": "sother", "n": g.n, "op": "exists", "key": key})
	} else {
		g.tr.Emit(map[string]any{"ev": "sexists", "n": g.n, "kind": kind, "name": name, "found": ok})
	}
	return ok, err
}

func (g *catStore) Get(key string) (kv.Pair, error) {
	g.s.Gate(g.n - 1)
	p, err := g.inner.Get(key)
	if err != nil && !errors.Is(err, kv.ErrNotExist) {
		die("store get: %v", err)
	}
	kind, name := keyKind(key)
	ev := map[string]any{"ev": "sget", "n": g.n, "kind": kind, "name": name, "found": err == nil, "ver": p.Ver}
	switch kind {
	case "seq":
		num, _ := strconv.ParseUint(p.Value, 10, 64)
		ev["num"] = num
	case "tab":
		_, id, rid := decodeTab(p.Value)
		ev["id"], ev["rid"] = id, rid
	default:
		ev = map[string]any{"ev": "sother", "n": g.n, "op": "get", "key": key}
	}
	g.tr.Emit(ev)
	return p, err
}

func (g *catStore) Set(key, value string, ver uint64) (kv.Pair, error) {
	g.s.Gate(g.n - 1)
	p, err := g.inner.Set(key, value, ver)
	kind, name := keyKind(key)
	ev := map[string]any{"ev": "sset", "n": g.n, "kind": kind, "name": name, "ver": ver, "err": errClass(err), "rver": p.Ver}
	switch kind {
	case "seq":
		num, _ := strconv.ParseUint(value, 10, 64)
		ev["num"] = num
	case "tab":
		_, id, rid := decodeTab(value)
		ev["id"], ev["rid"] = id, rid
		ev["slash"] = strings.Contains(name, "/")
	default:
		ev = map[string]any{"ev": "sother", "n": g.n, "op": "set", "key": key}
	}
	g.tr.Emit(ev)
	return p, err
}

func (g *catStore) Delete(key string, ver uint64) error {
	g.s.Gate(g.n - 1)
	err := g.inner.Delete(key, ver)
	kind, name := keyKind(key)
	if kind == "tab" {
		g.tr.Emit(map[string]any{"ev": "sdel", "n": g.n, "kind": kind, "name": name, "ver": ver, "err": errClass(err)})
	} else {
		g.tr.Emit(map[string]any{"ev": "sother", "n": g.n, "op": "del", "key": key})
	}
	return err
}

func (g *catStore) GetAll(pattern string) ([]kv.Pair, error) {
	g.s.Gate(g.n - 1)
	ps, err := g.inner.GetAll(pattern)
	if err != nil {
		die("store getall: %v", err)
	}
	if pattern == "/tables/*" {
		tabs := []map[string]any{}
		for _, p := range ps {
			name, id, rid := decodeTab(p.Value)
			tabs = append(tabs, map[string]any{"name": name, "id": id, "rid": rid, "key": p.Key})
		}
		g.tr.Emit(map[string]any{"ev": "sgetall", "n": g.n, "kind": "tabs", "tabs": tabs})
	} else {
		g.tr.Emit(map[string]any{"ev": "sother", "n": g.n, "op": "getall", "key": pattern})
	}
	return ps, err
}

type catOp struct {
	Op   string `json:"op"`
	Name string `json:"name"`
}
type catBeh struct {
	Prog  [][]catOp `json:"prog"`
	Sched []int     `json:"sched"`
}

// cmdReader returns one marshalled command per Read call, as snapshot files do.
type cmdReader struct {
	cmds [][]byte
	fail int // fail with an error before returning record #fail (-1: never)
	pos  int
}

func (c *cmdReader) Read(p []byte) (int, error) {
	if c.fail >= 0 && c.pos == c.fail {
		return 0, errors.New("injected stream failure")
	}
	if c.pos >= len(c.cmds) {
		return 0, io.EOF
	}
	n := copy(p, c.cmds[c.pos])
	c.pos++
	return n, nil
}

func restoreStream(name string, keys []string, failAt int) *cmdReader {
	r := &cmdReader{fail: failAt}
	for _, k := range keys {
		b, _ := (&regattapb.Command{Table: []byte(name), Type: regattapb.Command_PUT, Kv: &regattapb.KeyValue{Key: []byte(k), Value: []byte("v")}}).MarshalVT()
		r.cmds = append(r.cmds, b)
	}
	li := uint64(42)
	b, _ := (&regattapb.Command{Table: []byte(name), Type: regattapb.Command_DUMMY, LeaderIndex: &li}).MarshalVT()
	r.cmds = append(r.cmds, b)
	return r
}

type catEnv struct {
	host  *dragonboat.NodeHost
	rs    *kv.RaftStore
	mgrs  []*table.Manager
	s     *gate.Sched
	tr    *tracer.T
	close func()
}

func newCatEnv(tr *tracer.T, nm int) *catEnv {
	host, addr, err := nh.NewAuto(nil)
	if err != nil {
		die("%v", err)
	}
	rs := &kv.RaftStore{NodeHost: host, ClusterID: 1000}
	if err := rs.Start(kv.RaftConfig{NodeID: 1, ElectionRTT: 5, HeartbeatRTT: 1, SnapshotEntries: 1000, CompactionOverhead: 500, MaxInMemLogSize: 1024 * 1024, InitialMembers: map[uint64]string{1: addr}}); err != nil {
		die("raftstore start: %v", err)
	}
	ctx, cancel := context.WithTimeout(context.Background(), 20*time.Second)
	defer cancel()
	if err := rs.WaitForLeader(ctx); err != nil {
		die("no leader: %v", err)
	}
	e := &catEnv{host: host, rs: rs, s: gate.New(nm), tr: tr}
	fs := pvfs.NewMem()
	for i := 0; i < nm; i++ {
		m := table.NewManager(host, map[uint64]string{1: addr}, &catStore{inner: rs, n: i + 1, s: e.s, tr: tr},
			table.Config{NodeID: 1, Table: table.TableConfig{ElectionRTT: 5, HeartbeatRTT: 1, SnapshotEntries: 10000, CompactionOverhead: 5000,
				MaxInMemLogSize: 1024 * 1024, FS: fs, DataDir: "/tables", BlockCacheSize: 1 << 20, TableCacheSize: 64}})
		e.mgrs = append(e.mgrs, m)
	}
	e.close = func() { host.Close() }
	return e
}

// run f as a call of manager i to completion (all its store calls released immediately)
func (e *catEnv) runCall(i int, f func()) {
	if err := e.s.Start(i, f); err != nil {
		die("%v", err)
	}
	for guard := 0; e.s.Running(i) && guard < 1000; guard++ {
		if err := e.s.Step(i); err != nil {
			die("%v", err)
		}
	}
}

func (e *catEnv) running() []uint64 {
	nhi := e.host.GetNodeHostInfo(dragonboat.DefaultNodeHostInfoOption)
	var ids []uint64
	for _, s := range nhi.ShardInfoList {
		ids = append(ids, s.ShardID)
	}
	sort.Slice(ids, func(a, b int) bool { return ids[a] < ids[b] })
	return ids
}

func (e *catEnv) callFunc(i int, op catOp) func() {
	m, tr := e.mgrs[i], e.tr
	return func() {
		switch op.Op {
		case "C":
			t, err := m.CreateTable(op.Name)
			res := "ok"
			switch {
			case err == nil:
			case errors.Is(err, serrors.ErrTableExists):
				res = "exists"
			default:
				res = errClass(err)
			}
			tr.Emit(map[string]any{"ev": "ret", "n": i + 1, "call": "C", "name": op.Name, "res": res, "id": t.ClusterID})
		case "D":
			err := m.DeleteTable(op.Name)
			res := "ok"
			switch {
			case err == nil:
			case errors.Is(err, serrors.ErrTableNotFound):
				res = "notfound"
			default:
				res = errClass(err)
			}
			tr.Emit(map[string]any{"ev": "ret", "n": i + 1, "call": "D", "name": op.Name, "res": res, "id": 0})
		case "L":
			_, err := m.GetTables()
			tr.Emit(map[string]any{"ev": "ret", "n": i + 1, "call": "L", "name": "", "res": map[bool]string{true: "ok", false: "error"}[err == nil], "id": 0})
		}
	}
}

// data operations on the real shard of table name (through manager i)
func (e *catEnv) dataCheck(i int, name string, put string) {
	e.runCall(i, func() {
		at, err := e.mgrs[i].GetTable(name)
		if err != nil {
			if errors.Is(err, serrors.ErrTableNotFound) {
				e.tr.Emit(map[string]any{"ev": "ret", "n": i + 1, "call": "G", "name": name, "res": "notfound", "id": 0})
				return
			}
			die("gettable: %v", err)
		}
		e.tr.Emit(map[string]any{"ev": "ret", "n": i + 1, "call": "G", "name": name, "res": "ok", "id": at.ClusterID})
		deadline := time.Now().Add(20 * time.Second)
		if put != "" {
			for {
				ctx, cancel := context.WithTimeout(context.Background(), 2*time.Second)
				_, err := at.Put(ctx, &regattapb.PutRequest{Table: []byte(name), Key: []byte(put), Value: []byte("v")})
				cancel()
				if err == nil {
					break
				}
				if time.Now().After(deadline) {
					die("put into %s/%d: %v", name, at.ClusterID, err)
				}
				time.Sleep(5 * time.Millisecond)
			}
			e.tr.Emit(map[string]any{"ev": "tput", "name": name, "id": at.ClusterID, "key": put})
		}
		for {
			ctx, cancel := context.WithTimeout(context.Background(), 2*time.Second)
			res, err := at.Range(ctx, &regattapb.RangeRequest{Table: []byte(name), Key: []byte{0}, RangeEnd: []byte{0}, Linearizable: true})
			cancel()
			if err == nil {
				keys := []string{}
				for _, kv := range res.Kvs {
					keys = append(keys, string(kv.Key))
				}
				e.tr.Emit(map[string]any{"ev": "trange", "name": name, "id": at.ClusterID, "keys": keys})
				return
			}
			if time.Now().After(deadline) {
				die("range on %s/%d: %v", name, at.ClusterID, err)
			}
			time.Sleep(5 * time.Millisecond)
		}
	})
}

func (e *catEnv) reconcile(i int) {
	before := e.running()
	// the real loop retries every period; a pass fails transiently while a shard is still initialising
	deadline := time.Now().Add(20 * time.Second)
	for {
		var rerr error
		e.runCall(i, func() { rerr = e.mgrs[i].VerifReconcile() })
		if rerr == nil {
			break
		}
		if time.Now().After(deadline) {
			die("reconcile: %v", rerr)
		}
		time.Sleep(10 * time.Millisecond)
	}
	e.tr.Emit(map[string]any{"ev": "reconcile", "before": before, "after": e.running()})
}

func (e *catEnv) restore(i int, name string, keys []string, failAt int) {
	e.runCall(i, func() {
		err := e.mgrs[i].Restore(name, restoreStream(name, keys, failAt))
		res := "ok"
		if err != nil {
			res = "error:" + err.Error()
		}
		e.tr.Emit(map[string]any{"ev": "ret", "n": i + 1, "call": "R", "name": name, "res": res, "id": 0})
		if err == nil {
			at, err := e.mgrs[i].GetTable(name)
			if err != nil {
				die("gettable after restore: %v", err)
			}
			e.tr.Emit(map[string]any{"ev": "ret", "n": i + 1, "call": "G", "name": name, "res": "ok", "id": at.ClusterID})
			if keys == nil {
				keys = []string{}
			}
			e.tr.Emit(map[string]any{"ev": "restored", "name": name, "id": at.ClusterID, "keys": keys})
		}
	})
}

// catSlashWitness : directed witness of the known finding "a table whose name contains '/' is created
// but never listed" (GetAll("/tables/*") matches exactly one path segment).
func catSlashWitness(tr *tracer.T) {
	tr.Emit(map[string]any{"ev": "reset"})
	e := newCatEnv(tr, 2)
	defer e.close()
	e.runCall(0, e.callFunc(0, catOp{"C", "a"}))
	e.runCall(0, e.callFunc(0, catOp{"C", "x/y"}))
	e.runCall(1, e.callFunc(1, catOp{"L", ""}))
}

func catRun(tr *tracer.T, b catBeh, rng *rand.Rand, epilogue bool) {
	tr.Emit(map[string]any{"ev": "reset"})
	nm := len(b.Prog)
	if nm < 2 {
		nm = 2
	}
	e := newCatEnv(tr, nm)
	defer e.close()
	next := make([]int, nm)
	step := func(i int) {
		if !e.s.Running(i) {
			if i >= len(b.Prog) || next[i] >= len(b.Prog[i]) {
				return
			}
			op := b.Prog[i][next[i]]
			next[i]++
			if err := e.s.Start(i, e.callFunc(i, op)); err != nil {
				die("%v", err)
			}
			return // Start ran the call to its first gate: that is not a store call yet
		}
		if e.s.Parked(i) {
			if err := e.s.Step(i); err != nil {
				die("%v", err)
			}
		}
	}
	// a model step of manager m = "its current call performs its next store call"
	for _, n := range b.Sched {
		i := n - 1
		if !e.s.Running(i) {
			step(i) // start (parks before the first store call)
		}
		step(i)
	}
	for i := 0; i < nm; i++ {
		for guard := 0; guard < 200 && (e.s.Running(i) || (i < len(b.Prog) && next[i] < len(b.Prog[i]))); guard++ {
			step(i)
		}
	}
	if !epilogue {
		return
	}
	// ---- sequential epilogue on the same catalogue: data, recreate, restore, reconcile
	names := []string{"a", "b"}
	for _, n := range names {
		e.dataCheck(rng.Intn(nm), n, "m1-"+n)
	}
	e.reconcile(0)
	// delete + recreate: the new incarnation must be empty although the old shard's data still exists
	victim := names[rng.Intn(2)]
	e.runCall(0, e.callFunc(0, catOp{"D", victim}))
	if rng.Intn(2) == 0 {
		e.reconcile(1) // old shard stopped before the recreate ... or not
	}
	e.runCall(1, e.callFunc(1, catOp{"C", victim}))
	e.dataCheck(0, victim, "")
	e.dataCheck(1, victim, "m2-"+victim)
	other := names[0]
	if other == victim {
		other = names[1]
	}
	e.dataCheck(0, other, "") // isolation: the other table is untouched
	// names that merely LOOK like an existing one are different names
	e.runCall(0, e.callFunc(0, catOp{"D", other + "/"}))
	e.runCall(1, e.callFunc(1, catOp{"D", "./" + other}))
	e.dataCheck(0, "x/../"+other, "")
	e.dataCheck(0, other, "")
	// restore: failed attempt, another id assigned in between, successful retry
	if rng.Intn(2) == 0 {
		e.restore(0, victim, []string{"r1", "r2"}, 1) // fails after the first record
		e.runCall(1, e.callFunc(1, catOp{"C", "c" + strconv.Itoa(rng.Intn(3))}))
	}
	e.restore(rng.Intn(nm), victim, []string{"r1", "r2", "r3"}, -1)
	e.dataCheck(0, victim, "")
	e.runCall(0, e.callFunc(0, catOp{"L", ""}))
	e.reconcile(0)
	e.dataCheck(1, other, "")
}

// diffTables on all small catalogue / running combinations (reconciliation decision function)
func catDiff(tr *tracer.T, rng *rand.Rand, n int) {
	tr.Emit(map[string]any{"ev": "reset"})
	u := []uint64{10000, 10001, 10002, 10003, 1000, 0}
	for c := 0; c < n; c++ {
		tabs := map[string]table.Table{}
		cat := []uint64{}
		for t := 0; t < rng.Intn(4); t++ {
			tb := table.Table{Name: fmt.Sprintf("t%d", t), ClusterID: u[rng.Intn(len(u))]}
			if rng.Intn(3) == 0 {
				tb.RecoverID = u[rng.Intn(len(u))]
			}
			tabs[tb.Name] = tb
			cat = append(cat, tb.ClusterID, tb.RecoverID)
		}
		var running []uint64
		var info []dragonboat.ShardInfo
		for _, id := range u[:5] {
			if rng.Intn(2) == 0 {
				running = append(running, id)
				info = append(info, dragonboat.ShardInfo{ShardID: id})
			}
		}
		if running == nil {
			running = []uint64{}
		}
		start, stop := table.VerifDiffTables(tabs, info)
		sl := []uint64{}
		for id := range start {
			sl = append(sl, id)
		}
		if stop == nil {
			stop = []uint64{}
		}
		tr.Emit(map[string]any{"ev": "diff", "cat": cat, "running": running, "start": sl, "stop": stop})
	}
}

func init() {
	subcmds["catalog"] = func(args []string) int {
		fs := flag.NewFlagSet("catalog", flag.ExitOnError)
		out := fs.String("out", "trace.ndjson", "trace")
		only := fs.Int("only", -1, "only behaviour k")
		in := fs.String("in", "", "TLC-generated behaviours")
		seed := fs.Int64("seed", 1, "seed")
		epi := fs.Int("epilogue", 4, "every k-th behaviour continues with the data / recreate / restore / reconcile epilogue")
		_ = fs.Parse(args)
		tr, err := tracer.New(*out)
		if err != nil {
			die("%v", err)
		}
		data, err := os.ReadFile(*in)
		if err != nil {
			die("%v", err)
		}
		lines := bytes.Split(bytes.TrimSpace(data), []byte("\n"))
		for b, line := range lines {
			if *only >= 0 && b != *only {
				continue
			}
			var x catBeh
			if err := json.Unmarshal(line, &x); err != nil {
				die("bad behaviour: %v", err)
			}
			rng := rand.New(rand.NewSource(*seed*31337 + int64(b)))
			start := tr.Lines() + 1
			catRun(tr, x, rng, b%*epi == 0)
			fmt.Printf("BEHAVIOUR %d lines %d-%d class 0\n", b, start, tr.Lines())
		}
		if *only < 0 || *only == len(lines) {
			start := tr.Lines() + 1
			catDiff(tr, rand.New(rand.NewSource(*seed)), 400)
			fmt.Printf("BEHAVIOUR %d lines %d-%d class 1\n", len(lines), start, tr.Lines())
		}
		if *only < 0 || *only == len(lines)+1 {
			start := tr.Lines() + 1
			catSlashWitness(tr)
			fmt.Printf("BEHAVIOUR %d lines %d-%d class 2\n", len(lines)+1, start, tr.Lines())
		}
		if err := tr.Close(); err != nil {
			die("%v", err)
		}
		return 0
	}
}
