package main

import (
	"bytes"
	"encoding/json"
	"flag"
	"fmt"
	"math/rand"
	"os"
	"sync"
	"sync/atomic"

	"github.com/cockroachdb/pebble/vfs"
	"github.com/jamf/regatta/regattapb"
	"github.com/jamf/regatta/storage/table/fsm"
	sm "github.com/lni/dragonboat/v4/statemachine"

	"verif/harness/internal/gen"
	m "verif/harness/internal/model"
	"verif/harness/internal/tracer"
)

// rep is one table replica: a real fsm.FSM on its own in-memory file system.
type rep struct {
	id        int
	fs        vfs.FS
	srt       fsm.SnapshotRecoveryType
	f         sm.IOnDiskStateMachine
	applied   uint64
	nmu       sync.Mutex
	notified  []uint64
	listening bool // the state machine was created by open(): its applied-index listener records into notified
}

func newRep(id int, srt fsm.SnapshotRecoveryType) *rep {
	r := &rep{id: id, fs: vfs.NewMem(), srt: srt}
	r.open()
	return r
}

func (r *rep) open() uint64 {
	// the applied-index listener (what feeds the follower's notification queue): every call is recorded
	r.listening = true
	r.f = fsm.New("tbl", "/data", r.fs, nil, nil, r.srt, func(i uint64) {
		r.nmu.Lock()
		r.notified = append(r.notified, i)
		r.nmu.Unlock()
	})(10001, 1)
	idx, err := r.f.Open(nil)
	if err != nil {
		die("open: %v", err)
	}
	return idx
}

func die(format string, a ...any) {
	fmt.Fprintf(os.Stderr, "DRIVER-ERROR: "+format+"\n", a...)
	os.Exit(2)
}

type logEntry struct {
	I  uint64
	LI int64
	C  m.Cmd
}

// update applies entries as ONE FSM.Update call and emits the event.
func (r *rep) update(tr *tracer.T, ents []logEntry) {
	in := make([]sm.Entry, len(ents))
	for i, e := range ents {
		b, err := e.C.PB("tbl", e.LI).MarshalVT()
		if err != nil {
			die("marshal: %v", err)
		}
		in[i] = sm.Entry{Index: e.I, Cmd: b}
	}
	r.nmu.Lock()
	r.notified = nil
	r.nmu.Unlock()
	out, err := r.f.Update(in)
	if err != nil {
		die("update: %v", err)
	}
	r.nmu.Lock()
	notified := append([]uint64{}, r.notified...)
	r.nmu.Unlock()
	evs := make([]map[string]any, len(ents))
	for i, e := range ents {
		res := regattapb.CommandResult{}
		if len(out[i].Result.Data) > 0 {
			if err := res.UnmarshalVT(out[i].Result.Data); err != nil {
				die("unmarshal result: %v", err)
			}
		}
		evs[i] = map[string]any{"i": e.I, "li": e.LI, "c": e.C, "val": out[i].Result.Value,
			"data": len(out[i].Result.Data) > 0, "rev": res.Revision, "rs": m.RespsFromPB(res.Responses)}
	}
	r.applied = ents[len(ents)-1].I
	idx, lidx := r.indices()
	ev := map[string]any{"ev": "update", "rep": r.id, "ents": evs, "idx": idx, "lidx": lidx}
	if r.listening {
		ev["notified"] = notified
	}
	tr.Emit(ev)
}

func (r *rep) indices() (uint64, uint64) {
	a, err := r.f.Lookup(fsm.LocalIndexRequest{})
	if err != nil {
		die("index: %v", err)
	}
	b, err := r.f.Lookup(fsm.LeaderIndexRequest{})
	if err != nil {
		die("lindex: %v", err)
	}
	return a.(*fsm.IndexResponse).Index, b.(*fsm.IndexResponse).Index
}

func (r *rep) lookup(tr *tracer.T, op m.Op) {
	res, err := r.f.Lookup(op.RangePB())
	if err != nil {
		die("lookup: %v", err)
	}
	tr.Emit(map[string]any{"ev": "lookup", "rep": r.id, "op": op, "r": m.RangeResp(res.(*regattapb.ResponseOp_Range))})
}

func (r *rep) iter(tr *tracer.T, op m.Op) {
	res, err := r.f.Lookup(fsm.IteratorRequest{RangeOp: op.RangePB()})
	if err != nil {
		die("iter: %v", err)
	}
	var chunks []m.Resp
	var kept []*regattapb.ResponseOp_Range
	collectSeq(res, func(x *regattapb.ResponseOp_Range) { chunks = append(chunks, m.RangeResp(x)); kept = append(kept, x) })
	tr.Emit(map[string]any{"ev": "iter", "rep": r.id, "op": op, "chunks": chunks})
	// a consumer that keeps the messages until the sequence has ended (as a collecting reader does) must hold the same
	// answer as one that uses each message at once; when it does not, its answer is judged as well
	late := make([]m.Resp, 0, len(kept))
	for _, x := range kept {
		late = append(late, m.RangeResp(x))
	}
	a, _ := json.Marshal(chunks)
	b, _ := json.Marshal(late)
	if !bytes.Equal(a, b) {
		tr.Emit(map[string]any{"ev": "iter", "rep": r.id, "op": op, "chunks": late})
	}
}

// iter2 : two lazy range sequences are created before either is consumed, then consumed in
// reverse order (IterateRange streams are consumed long after Lookup returned).
func (r *rep) iter2(tr *tracer.T, op1, op2 m.Op) {
	res1, err := r.f.Lookup(fsm.IteratorRequest{RangeOp: op1.RangePB()})
	if err != nil {
		die("iter: %v", err)
	}
	res2, err := r.f.Lookup(fsm.IteratorRequest{RangeOp: op2.RangePB()})
	if err != nil {
		die("iter: %v", err)
	}
	var c1, c2 []m.Resp
	collectSeq(res2, func(x *regattapb.ResponseOp_Range) { c2 = append(c2, m.RangeResp(x)) })
	collectSeq(res1, func(x *regattapb.ResponseOp_Range) { c1 = append(c1, m.RangeResp(x)) })
	tr.Emit(map[string]any{"ev": "iter", "rep": r.id, "op": op1, "chunks": c1})
	tr.Emit(map[string]any{"ev": "iter", "rep": r.id, "op": op2, "chunks": c2})
}

func (r *rep) rotxn(tr *tracer.T, c m.Cmd) {
	req := &regattapb.TxnRequest{Table: []byte("tbl")}
	t := c.TxnPB()
	req.Compare, req.Success, req.Failure = t.Compare, t.Success, t.Failure
	res, err := r.f.Lookup(req)
	if err != nil {
		die("rotxn: %v", err)
	}
	x := res.(*regattapb.TxnResponse)
	tr.Emit(map[string]any{"ev": "rotxn", "rep": r.id, "c": c, "ok": x.Succeeded, "rs": m.RespsFromPB(x.Responses)})
}

func (r *rep) index(tr *tracer.T) {
	idx, lidx := r.indices()
	tr.Emit(map[string]any{"ev": "index", "rep": r.id, "idx": idx, "lidx": lidx})
}

func (r *rep) reopen(tr *tracer.T) {
	if err := r.f.Close(); err != nil {
		die("close: %v", err)
	}
	idx := r.open()
	tr.Emit(map[string]any{"ev": "reopen", "rep": r.id, "idx": idx})
}

func (r *rep) close() { _ = r.f.Close() }

func fullRange() m.Op {
	return m.Op{T: "range", K: []byte{0}, End: m.End{Has: true, B: []byte{0}}}
}

// ---------------------------------------------------------------- histories

func tableHist(tr *tracer.T, rng *rand.Rand, nOps int, class int, mix string) {
	tr.Emit(map[string]any{"ev": "reset"})
	srt := fsm.RecoveryTypeSnapshot
	if rng.Intn(2) == 0 {
		srt = fsm.RecoveryTypeCheckpoint
	}
	r := newRep(1, srt)
	defer r.close()
	p := gen.NewPool(rng, 4+rng.Intn(8), class)
	p.Mix = mix
	idx := uint64(0)
	wr := 55
	if mix == "read" {
		wr = 25
	}
	for i := 0; i < nOps; i++ {
		x := rng.Intn(100)
		if x >= wr && x < 55 {
			x = 55 + rng.Intn(28) // lookup or iter instead of a write
		}
		switch {
		case x < wr:
			n := 1 + rng.Intn(4)
			if rng.Intn(3) == 0 {
				n = 1
			}
			var ents []logEntry
			for j := 0; j < n; j++ {
				idx++
				if rng.Intn(10) == 0 {
					idx++ // dragonboat skips non-application entries: indices need not be dense
				}
				li := int64(-1)
				if rng.Intn(4) == 0 {
					li = int64(rng.Intn(50))
				}
				ents = append(ents, logEntry{I: idx, LI: li, C: p.Cmd(2)})
			}
			r.update(tr, ents)
		case x < 75 && mix != "txn":
			r.lookup(tr, p.ReadOp())
		case x < 79 && mix != "txn":
			r.iter(tr, p.ReadOp())
		case x < 83 && mix != "txn":
			r.iter2(tr, p.ReadOp(), p.ReadOp())
		case x < 93:
			r.rotxn(tr, p.Txn(true))
		case x < 97:
			r.index(tr)
		default:
			r.reopen(tr)
		}
	}
	r.lookup(tr, fullRange())
	r.index(tr)
}

func snapshotBytes(r *rep) (any, func() []byte) {
	ctx, err := r.f.PrepareSnapshot()
	if err != nil {
		die("prepare: %v", err)
	}
	return ctx, func() []byte {
		var buf bytes.Buffer
		if err := r.f.SaveSnapshot(ctx, &buf, make(chan struct{})); err != nil {
			die("save: %v", err)
		}
		return buf.Bytes()
	}
}

// tableConverge : one log, several replicas cutting it differently, with
// reopen and snapshot transfers (C03, C08 content fidelity).
func randomLog(rng *rand.Rand, logLen int, class int) ([]logEntry, *gen.Pool) {
	p := gen.NewPool(rng, 4+rng.Intn(6), class)
	var log []logEntry
	idx := uint64(0)
	for i := 0; i < logLen; i++ {
		idx++
		if rng.Intn(10) == 0 {
			idx++
		}
		li := int64(-1)
		if rng.Intn(3) == 0 {
			li = int64(rng.Intn(50))
		}
		log = append(log, logEntry{I: idx, LI: li, C: p.Cmd(2)})
	}
	return log, p
}

func tableConverge(tr *tracer.T, rng *rand.Rand, log []logEntry, p *gen.Pool) {
	tr.Emit(map[string]any{"ev": "reset"})
	logLen := len(log)
	nrep := 2 + rng.Intn(2)
	reps := make([]*rep, nrep)
	pos := make([]int, nrep) // number of log entries applied
	for i := range reps {
		srt := fsm.RecoveryTypeSnapshot
		if rng.Intn(2) == 0 {
			srt = fsm.RecoveryTypeCheckpoint
		}
		reps[i] = newRep(i+1, srt)
	}
	defer func() {
		for _, r := range reps {
			r.close()
		}
	}()
	applyBatch := func(i, n int) {
		if pos[i]+n > len(log) {
			n = len(log) - pos[i]
		}
		if n <= 0 {
			return
		}
		reps[i].update(tr, log[pos[i]:pos[i]+n])
		pos[i] += n
	}
	steps := logLen * nrep
	for s := 0; s < steps; s++ {
		i := rng.Intn(nrep)
		switch x := rng.Intn(100); {
		case x < 70:
			applyBatch(i, 1+rng.Intn(4))
		case x < 78:
			reps[i].reopen(tr)
		case x < 90:
			// snapshot from i to j (only forward, as Raft does), with writes between prepare and save
			j := rng.Intn(nrep)
			if j == i || pos[j] > pos[i] {
				continue
			}
			_, save := snapshotBytes(reps[i])
			tr.Emit(map[string]any{"ev": "prepare", "rep": reps[i].id})
			pinnedPos := pos[i]
			if rng.Intn(2) == 0 {
				applyBatch(i, 1+rng.Intn(3))
				if rng.Intn(2) == 0 {
					// dragonboat calls Sync between apply batches: the memtable is flushed while the snapshot is pending
					if err := reps[i].f.Sync(); err != nil {
						die("sync: %v", err)
					}
				}
			}
			data := save()
			if err := reps[j].f.RecoverFromSnapshot(bytes.NewReader(data), make(chan struct{})); err != nil {
				die("recover: %v", err)
			}
			pos[j] = pinnedPos
			tr.Emit(map[string]any{"ev": "recover", "to": reps[j].id, "from": reps[i].id})
			reps[j].index(tr)
			reps[j].lookup(tr, fullRange())
		default:
			reps[i].lookup(tr, p.ReadOp())
		}
	}
	for i := range reps {
		for pos[i] < len(log) {
			applyBatch(i, 1+rng.Intn(4))
		}
		reps[i].index(tr)
		reps[i].lookup(tr, fullRange())
	}
}

// tableReplay : one TLC-generated transition (from-state, apply batch) on a fresh real FSM.
type transition struct {
	From  []m.KV `json:"from"`
	Idx   uint64 `json:"idx"`
	Lidx  int64  `json:"lidx"`
	Batch []struct {
		I  uint64 `json:"i"`
		C  m.Cmd  `json:"c"`
		LI int64  `json:"li"`
	} `json:"batch"`
}

func tableReplay(tr *tracer.T, line []byte, n int, reads int) {
	var t transition
	if err := json.Unmarshal(line, &t); err != nil {
		die("bad transition: %v", err)
	}
	tr.Emit(map[string]any{"ev": "reset"})
	srt := fsm.RecoveryTypeSnapshot
	if n%2 == 0 {
		srt = fsm.RecoveryTypeCheckpoint
	}
	r := newRep(1, srt)
	defer r.close()
	if t.Idx > 0 {
		li := int64(-1)
		if t.Lidx > 0 {
			li = t.Lidx
		}
		r.update(tr, []logEntry{{I: t.Idx, LI: li, C: m.Cmd{T: "PUTB", KVs: t.From}}})
	}
	var ents []logEntry
	for _, e := range t.Batch {
		ents = append(ents, logEntry{I: e.I, LI: e.LI, C: e.C})
	}
	r.update(tr, ents)
	r.lookup(tr, fullRange())
	r.index(tr)
	if reads > 0 {
		// C09: reads around the keys of this state, every limit relative to the number of matches
		rng := rand.New(rand.NewSource(int64(n)))
		p := &gen.Pool{R: rng}
		seen := map[string]bool{}
		for _, kv := range t.From {
			if !seen[string(kv.K)] {
				seen[string(kv.K)] = true
				p.Keys = append(p.Keys, kv.K)
			}
		}
		for _, k := range [][]byte{{0}, {97}, {97, 0}, {255}, {255, 255}} {
			if !seen[string(k)] {
				seen[string(k)] = true
				p.Keys = append(p.Keys, k)
			}
		}
		for i := 0; i < reads; i++ {
			op := p.ReadOp()
			op.Limit = int64(rng.Intn(len(t.From) + 2))
			if i%2 == 0 {
				r.lookup(tr, op)
			} else {
				r.iter(tr, op)
			}
		}
	}
}

// tableConc : one writer applies updates while reader goroutines issue read-only transactions,
// unary range reads and streamed range reads against the same real FSM (C02 atomic visibility,
// C09 point-in-time view).  Readers record s = updates completed at invocation and
// e = updates started at return; events are emitted after the section, updates first.
// concGiant: the next behaviour of tableConc contains the giant transaction (set by the behaviour loop for every third one)
var concGiant bool

func tableConc(tr *tracer.T, rng *rand.Rand, nUpd int) {
	tr.Emit(map[string]any{"ev": "reset"})
	r := newRep(1, fsm.RecoveryTypeSnapshot)
	defer r.close()
	keys := [][]byte{{'a'}, {'a', 0}, {'b'}, {'b', 255}, {'c'}}
	nk := 2 + rng.Intn(4)
	keys = keys[:nk]
	// initial content
	init := m.Cmd{T: "PUTB"}
	for _, k := range keys {
		init.KVs = append(init.KVs, m.KV{K: k, V: []byte{0}})
	}
	r.update(tr, []logEntry{{I: 1, LI: -1, C: init}})
	tr.Emit(map[string]any{"ev": "rec_start"})
	var started, completed atomic.Int64
	var mu sync.Mutex
	var revs []map[string]any
	// one behaviour in three contains a GIANT transaction (11 pairs of 1.9 MiB = 21 MiB in one log entry): readers
	// then also ask for the keys of its pairs
	giant := concGiant
	concGiant = false
	stop := make(chan struct{})
	var wg sync.WaitGroup
	readOp := func(k []byte) m.Op { return m.Op{T: "range", K: k} }
	for g := 0; g < 5; g++ {
		wg.Add(1)
		go func(g int) {
			defer wg.Done()
			lr := rand.New(rand.NewSource(int64(g) + 77))
			for {
				select {
				case <-stop:
					return
				default:
				}
				x := lr.Intn(5)
				if giant && g >= 3 {
					// these two readers never take a Pebble snapshot (which waits for a large commit in progress):
					// they keep reading WHILE the giant transaction is being applied
					x = 3
				}
				switch {
				case x < 3:
					c := m.Cmd{T: "TXN"}
					switch lr.Intn(3) {
					case 0:
						c.Cmp = []m.Cmp{{K: keys[0], Res: "NOT_EQUAL", HasVal: true, Val: []byte{250}}}
					case 1:
						// a predicate that every update FLIPS (values alternate between < 100 and > 100): the branch
						// taken and the values it reads must come from one and the same content
						c.Cmp = []m.Cmp{{K: keys[lr.Intn(len(keys))], Res: "LESS", HasVal: true, Val: []byte{100}}}
					}
					for _, k := range keys {
						c.Succ = append(c.Succ, readOp(k))
					}
					c.Fail = []m.Op{readOp(keys[0]), readOp(keys[len(keys)-1])}
					req := &regattapb.TxnRequest{Table: []byte("tbl")}
					t := c.TxnPB()
					req.Compare, req.Success, req.Failure = t.Compare, t.Success, t.Failure
					s0 := completed.Load()
					res, err := r.f.Lookup(req)
					e0 := started.Load()
					if err != nil {
						die("rotxn: %v", err)
					}
					x := res.(*regattapb.TxnResponse)
					mu.Lock()
					revs = append(revs, map[string]any{"ev": "rotxn_at", "rep": 1, "c": c, "ok": x.Succeeded, "rs": m.RespsFromPB(x.Responses), "s": s0, "e": e0})
					mu.Unlock()
				case x == 3:
					op := fullRange()
					if giant && lr.Intn(2) == 0 {
						// only the keys of the giant transaction's pairs: all of them or none
						op = m.Op{T: "range", K: []byte("zbig"), End: m.End{Has: true, B: []byte("zbih")}, KeysOnly: true}
					} else if giant {
						op = m.Op{T: "range", K: []byte{0}, End: m.End{Has: true, B: []byte("z")}}
					}
					s0 := completed.Load()
					res, err := r.f.Lookup(op.RangePB())
					e0 := started.Load()
					if err != nil {
						die("lookup: %v", err)
					}
					mu.Lock()
					revs = append(revs, map[string]any{"ev": "lookup_at", "rep": 1, "op": op, "r": m.RangeResp(res.(*regattapb.ResponseOp_Range)), "s": s0, "e": e0})
					mu.Unlock()
				default:
					op := fullRange()
					if giant {
						op = m.Op{T: "range", K: []byte{0}, End: m.End{Has: true, B: []byte("z")}}
					}
					s0 := completed.Load()
					res, err := r.f.Lookup(fsm.IteratorRequest{RangeOp: op.RangePB()})
					if err != nil {
						die("iter: %v", err)
					}
					var chunks []m.Resp
					collectSeq(res, func(x *regattapb.ResponseOp_Range) { chunks = append(chunks, m.RangeResp(x)) })
					e0 := started.Load()
					mu.Lock()
					revs = append(revs, map[string]any{"ev": "iter_at", "rep": 1, "op": op, "chunks": chunks, "s": s0, "e": e0})
					mu.Unlock()
				}
			}
		}(g)
	}
	// the writer: every update rewrites ALL keys to one new value inside a single transaction,
	// so every state that ever exists has all keys equal
	for u := 0; u < nUpd; u++ {
		v := []byte{byte((u%2)*100 + 1 + (u/2)%99)} // alternately below and above 100
		c := m.Cmd{T: "TXN"}
		for _, k := range keys {
			c.Succ = append(c.Succ, m.Op{T: "put", K: k, V: v})
		}
		if u%7 == 3 { // sometimes delete everything but the first key, in the same transaction
			c.Succ = append(c.Succ, m.Op{T: "del", K: keys[1], End: m.End{Has: true, B: []byte{0}}})
		}
		if giant && u == nUpd/2 {
			for i := 0; i < 11; i++ {
				big := make([]byte, 1900*1024)
				for j := 0; j < len(big); j += 4096 {
					big[j] = byte(i + j)
				}
				c.Succ = append(c.Succ, m.Op{T: "put", K: []byte(fmt.Sprintf("zbig%02d", i)), V: big})
			}
		}
		started.Add(1)
		r.update(tr, []logEntry{{I: uint64(u + 2), LI: -1, C: c}})
		completed.Add(1)
	}
	close(stop)
	wg.Wait()
	// keep the validated set bounded WITHOUT losing an observation: reads with the same request, the same answer and
	// the same window are one observation (the verdict depends on nothing else); the distinct ones that overlapped an
	// update come first
	seen := map[string]bool{}
	var distinct []map[string]any
	for _, e := range revs {
		b, err := json.Marshal(e)
		if err != nil {
			die("marshal: %v", err)
		}
		if !seen[string(b)] {
			seen[string(b)] = true
			distinct = append(distinct, e)
		}
	}
	n := 0
	for _, e := range distinct {
		if e["s"].(int64) != e["e"].(int64) && n < 8000 {
			tr.Emit(e)
			n++
		}
	}
	for _, e := range distinct {
		if n >= 8400 {
			break
		}
		if e["s"].(int64) == e["e"].(int64) {
			tr.Emit(e)
			n++
		}
	}
}

// tableBigScan : C09 size cuts. Pairs of 0.7-2 MiB so that the ~4 MiB message cut falls on the
// first, a middle and the last pair; then streamed and unary reads with all bounds / limits.
func tableBigScan(tr *tracer.T, rng *rand.Rand, witness bool) {
	tr.Emit(map[string]any{"ev": "reset"})
	r := newRep(1, fsm.RecoveryTypeSnapshot)
	defer r.close()
	sizes := []int{2 << 20, (2 << 20) - 1, 1536 * 1024, 1 << 20, 700 * 1024, 3, 0, (2 << 20) - 600, 1300 * 1024}
	nk := 4 + rng.Intn(7)
	var keys [][]byte
	idx := uint64(0)
	for i := 0; i < nk; i++ {
		k := []byte{'k', byte('a' + i)}
		if rng.Intn(4) == 0 {
			k = append(k, 0)
		}
		keys = append(keys, k)
		v := make([]byte, sizes[rng.Intn(len(sizes))])
		for j := range v {
			v[j] = byte(i*31 + j)
		}
		idx++
		r.update(tr, []logEntry{{I: idx, LI: -1, C: m.Cmd{T: "PUT", K: k, V: v}}})
	}
	p := &gen.Pool{R: rng, Keys: keys}
	for i := 0; i < 14; i++ {
		op := fullRange()
		if i > 3 {
			op = p.ReadOp()
			if !op.End.Has {
				op.End = m.End{Has: true, B: []byte{0}}
			}
		}
		switch i % 4 {
		case 1:
			op.Limit = int64(1 + rng.Intn(nk+1))
		case 2:
			op.KeysOnly = i%8 == 2
			op.CountOnly = !op.KeysOnly
		}
		r.iter(tr, op)
		r.lookup(tr, op)
	}
	// a streamed read whose consumer is slow: an update lands between two messages and touches pairs
	// not yet delivered.  The stream must still be ONE point-in-time view (C09).
	tr.Emit(map[string]any{"ev": "rec_start"})
	{
		op := fullRange()
		res, err := r.f.Lookup(fsm.IteratorRequest{RangeOp: op.RangePB()})
		if err != nil {
			die("iter: %v", err)
		}
		var chunks []m.Resp
		nUpd := int64(0)
		collectSeq(res, func(x *regattapb.ResponseOp_Range) {
			chunks = append(chunks, m.RangeResp(x))
			if len(chunks) == 1 {
				// delete the last key, overwrite the one before it, add a new last key
				idx++
				c := m.Cmd{T: "SEQ", Cmds: []m.Cmd{
					{T: "DEL", K: keys[len(keys)-1]},
					{T: "PUT", K: keys[len(keys)-2], V: []byte("changed")},
					{T: "PUT", K: []byte{'z'}, V: []byte("new")},
				}}
				r.update(tr, []logEntry{{I: idx, LI: -1, C: c}})
				nUpd++
			}
		})
		tr.Emit(map[string]any{"ev": "iter_at", "rep": 1, "op": op, "chunks": chunks, "s": 0, "e": nUpd})
	}
	if witness {
		// directed witness of known finding DelPrevSizeCut (C01): range delete with prev_kv over > 4 MiB
		idx++
		r.update(tr, []logEntry{{I: idx, LI: -1, C: m.Cmd{T: "DEL", K: []byte{'k'}, End: m.End{Has: true, B: []byte{0}}, Prev: true, Count: true}}})
		r.lookup(tr, fullRange())
	}
}

// tableManyPairs : C09 message size accounting. ~210 pairs of ~20 KB: a message holds ~200 pairs, so
// per-pair framing adds up to more than the 1 KiB safety margin of the cut.
func tableManyPairs(tr *tracer.T, rng *rand.Rand) {
	tr.Emit(map[string]any{"ev": "reset"})
	r := newRep(1, fsm.RecoveryTypeSnapshot)
	defer r.close()
	n := 205 + rng.Intn(40)
	sz := 19000 + rng.Intn(2500)
	load := m.Cmd{T: "PUTB"}
	for i := 0; i < n; i++ {
		v := make([]byte, sz+rng.Intn(3))
		for j := range v {
			v[j] = byte(i + j)
		}
		load.KVs = append(load.KVs, m.KV{K: []byte{'m', byte(i / 200), byte(i % 200)}, V: v})
	}
	r.update(tr, []logEntry{{I: 1, LI: -1, C: load}})
	for i := 0; i < 4; i++ {
		op := fullRange()
		switch i {
		case 1:
			op.K = []byte{'m', 0, 5}
		case 2:
			op.Limit = int64(n - 1)
		case 3:
			op.K = []byte{'m', 0, 100}
			op.End = m.End{Has: true, B: []byte{'m', 1, 30}}
		}
		r.iter(tr, op)
		r.lookup(tr, op)
	}
}

// recWriter captures every Write call as one record (commandSnapshot writes one marshalled command per call)
type recWriter struct{ recs [][]byte }

func (w *recWriter) Write(p []byte) (int, error) {
	w.recs = append(w.recs, append([]byte{}, p...))
	return len(p), nil
}

// tableSnapConc : C07 point-in-time. A writer applies updates back to back while command snapshots
// (Lookup(SnapshotRequest), the source of backups and follower recovery streams) are taken; each snapshot must be
// the content at EXACTLY the index it declares.
func tableSnapConc(tr *tracer.T, rng *rand.Rand, nUpd int) {
	tr.Emit(map[string]any{"ev": "reset"})
	r := newRep(1, fsm.RecoveryTypeSnapshot)
	defer r.close()
	r.update(tr, []logEntry{{I: 1, LI: -1, C: m.Cmd{T: "PUT", K: []byte("k0"), V: []byte{0}}}})
	tr.Emit(map[string]any{"ev": "rec_start"})
	type snap struct {
		idx   uint64
		pairs []m.KV
	}
	var snaps []snap
	var mu sync.Mutex
	stop := make(chan struct{})
	var wg sync.WaitGroup
	for g := 0; g < 2; g++ {
		wg.Add(1)
		go func() {
			defer wg.Done()
			for {
				select {
				case <-stop:
					return
				default:
				}
				w := &recWriter{}
				res, err := r.f.Lookup(fsm.SnapshotRequest{Writer: w, Stopper: make(chan struct{})})
				if err != nil {
					die("snapshot lookup: %v", err)
				}
				var pairs []m.KV
				for _, rec := range w.recs {
					c := &regattapb.Command{}
					if err := c.UnmarshalVT(rec); err != nil {
						die("snapshot record: %v", err)
					}
					pairs = append(pairs, m.KV{K: append([]byte{}, c.Kv.Key...), V: append([]byte{}, c.Kv.Value...)})
				}
				mu.Lock()
				if len(snaps) < 60 {
					snaps = append(snaps, snap{res.(*fsm.SnapshotResponse).Index, pairs})
				}
				mu.Unlock()
			}
		}()
	}
	nk := 3 + rng.Intn(5)
	for u := 0; u < nUpd; u++ {
		k := []byte(fmt.Sprintf("k%d", rng.Intn(nk)))
		c := m.Cmd{T: "PUT", K: k, V: []byte{byte(u), byte(u >> 8)}}
		switch u % 9 {
		case 4:
			c = m.Cmd{T: "DEL", K: k}
		case 2, 6:
			// a blind write followed by commands that read inside the apply batch: the whole entry is one atomic step
			c = m.Cmd{T: "SEQ", Cmds: []m.Cmd{{T: "PUT", K: k, V: []byte{byte(u)}}, {T: "PUT", K: []byte("kx"), V: []byte{byte(u)}, Prev: true},
				{T: "TXN", Succ: []m.Op{{T: "put", K: []byte("ky"), V: []byte{byte(u)}}, {T: "del", K: k, Prev: true}}}}}
		}
		r.update(tr, []logEntry{{I: uint64(u + 2), LI: -1, C: c}})
	}
	close(stop)
	wg.Wait()
	for _, s := range snaps {
		if s.pairs == nil {
			s.pairs = []m.KV{}
		}
		tr.Emit(map[string]any{"ev": "snap_at", "index": s.idx, "pairs": s.pairs})
	}
}

func init() {
	subcmds["table"] = func(args []string) int {
		fs := flag.NewFlagSet("table", flag.ExitOnError)
		mode := fs.String("mode", "hist", "hist | converge")
		seed := fs.Int64("seed", 1, "seed")
		n := fs.Int("n", 10, "number of behaviours")
		ops := fs.Int("ops", 40, "steps per behaviour")
		out := fs.String("out", "trace.ndjson", "trace file")
		only := fs.Int("only", -1, "run only behaviour #k (replay)")
		in := fs.String("in", "", "file of TLC-generated transitions (mode replay)")
		mix := fs.String("mix", "", "operation mix: '' | txn | read")
		reads := fs.Int("reads", 0, "mode replay: number of extra reads per transition")
		bigEvery := fs.Int("bigevery", 25, "every n-th behaviour uses values of 0.7-2 MiB")
		noBigPrev := fs.Bool("nobigprev", false, "no prev_kv on range deletes in histories with big values (keeps the known finding DelPrevSizeCut, a C01 defect, out of checks of other properties)")
		forceClass := fs.Int("class", -1, "force the key/value class of every behaviour (1 = long keys)")
		_ = fs.Parse(args)
		gen.NoBigPrev = *noBigPrev
		tr, err := tracer.New(*out)
		if err != nil {
			die("%v", err)
		}
		if *mode == "convlog" { // TLC-generated logs, driver-chosen cuts / reopen / snapshot points
			data, err := os.ReadFile(*in)
			if err != nil {
				die("%v", err)
			}
			for b, line := range bytes.Split(bytes.TrimSpace(data), []byte("\n")) {
				if *only >= 0 && b != *only {
					continue
				}
				var x struct {
					Log []struct {
						I  uint64 `json:"i"`
						C  m.Cmd  `json:"c"`
						LI int64  `json:"li"`
					} `json:"log"`
				}
				if err := json.Unmarshal(line, &x); err != nil {
					die("bad log: %v", err)
				}
				var lg []logEntry
				for _, e := range x.Log {
					lg = append(lg, logEntry{I: e.I, LI: e.LI, C: e.C})
				}
				rng := rand.New(rand.NewSource(*seed*1000003 + int64(b)))
				start := tr.Lines() + 1
				tableConverge(tr, rng, lg, gen.NewPool(rng, 4, 0))
				fmt.Printf("BEHAVIOUR %d lines %d-%d class 8\n", b, start, tr.Lines())
			}
			if err := tr.Close(); err != nil {
				die("%v", err)
			}
			return 0
		}
		if *mode == "replay" {
			data, err := os.ReadFile(*in)
			if err != nil {
				die("%v", err)
			}
			for b, line := range bytes.Split(bytes.TrimSpace(data), []byte("\n")) {
				if *only >= 0 && b != *only {
					continue
				}
				start := tr.Lines() + 1
				tableReplay(tr, line, b, *reads)
				fmt.Printf("BEHAVIOUR %d lines %d-%d class 9\n", b, start, tr.Lines())
			}
			if err := tr.Close(); err != nil {
				die("%v", err)
			}
			return 0
		}
		for b := 0; b < *n; b++ {
			if *only >= 0 && b != *only {
				continue
			}
			rng := rand.New(rand.NewSource(*seed*1000003 + int64(b)))
			class := 0
			switch {
			case b%10 == 7:
				class = 1 // long keys
			case b%*bigEvery == *bigEvery/2:
				class = 2 // big values
			}
			if *forceClass >= 0 {
				class = *forceClass
			}
			start := tr.Lines() + 1
			switch *mode {
			case "hist":
				tableHist(tr, rng, *ops, class, *mix)
			case "converge":
				lg, p := randomLog(rng, *ops, class)
				tableConverge(tr, rng, lg, p)
			case "conc":
				concGiant = b%3 == 1
				tableConc(tr, rng, *ops)
			case "snapconc":
				tableSnapConc(tr, rng, *ops)
			case "bigscan":
				if b%3 == 2 && *mix != "witness" {
					tableManyPairs(tr, rng)
				} else {
					tableBigScan(tr, rng, *mix == "witness")
				}
			default:
				die("bad mode")
			}
			fmt.Printf("BEHAVIOUR %d lines %d-%d class %d\n", b, start, tr.Lines(), class)
		}
		if err := tr.Close(); err != nil {
			die("%v", err)
		}
		return 0
	}
}
