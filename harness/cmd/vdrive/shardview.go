package main

import (
	"bytes"
	"encoding/json"
	"flag"
	"fmt"
	"math/rand"
	"os"
	"sync"

	"github.com/jamf/regatta/storage/cluster"
	"github.com/lni/dragonboat/v4"

	"verif/harness/internal/tracer"
)

// shardview : C19. Real shardView.update / shardInfo and the real delegate LocalState / MergeRemoteState.

type svUp struct {
	Shard  uint64 `json:"shard"`
	CC     uint64 `json:"cc"`
	Reps   uint64 `json:"reps"`
	Leader uint64 `json:"leader"`
	Term   uint64 `json:"term"`
}

func (u svUp) view() dragonboat.ShardView {
	v := dragonboat.ShardView{ShardID: u.Shard, ConfigChangeIndex: u.CC, LeaderID: u.Leader, Term: u.Term}
	if u.CC != 0 {
		// one membership per config-change index: the index labels it
		v.Replicas = map[uint64]string{u.Reps: fmt.Sprintf("addr-%d", u.Reps)}
	}
	return v
}

func svObserve(tr *tracer.T, node int, v *cluster.VerifView, shards []uint64) {
	for _, s := range shards {
		x := v.ShardInfo(s)
		reps := uint64(0)
		for k := range x.Replicas {
			reps = k
		}
		tr.Emit(map[string]any{"ev": "view", "node": node, "shard": s, "cc": x.ConfigChangeIndex, "reps": reps, "leader": x.LeaderID, "term": x.Term})
	}
}

func leaderOf(t uint64) uint64 {
	if t%2 == 1 {
		return 1
	}
	return 2
}

func svRandomUp(rng *rand.Rand, nsh int) svUp {
	u := svUp{Shard: uint64(1 + rng.Intn(nsh)), CC: uint64(rng.Intn(4)), Term: uint64(rng.Intn(6))}
	u.Reps = u.CC
	if u.Term > 0 && rng.Intn(3) != 0 {
		u.Leader = leaderOf(u.Term)
	}
	return u
}

func svRun(tr *tracer.T, rng *rand.Rand, steps []map[string]any, nrand int) {
	tr.Emit(map[string]any{"ev": "reset"})
	views := []*cluster.VerifView{}
	// local[n]: the Raft information of node n's own NodeHost (the shards it runs), re-read by the code on every Raft
	// event (Cluster.Notify), membership event and state exchange
	var localMu sync.Mutex
	local := make([][]svUp, 3)
	for i := 0; i < 3; i++ {
		i := i
		views = append(views, cluster.VerifNewView(func() cluster.Info {
			localMu.Lock()
			defer localMu.Unlock()
			var l []dragonboat.ShardInfo
			for _, u := range local[i] {
				v := u.view()
				l = append(l, dragonboat.ShardInfo{ShardID: v.ShardID, Replicas: v.Replicas, ConfigChangeIndex: v.ConfigChangeIndex, LeaderID: v.LeaderID, Term: v.Term})
			}
			return cluster.Info{ShardInfoList: l}
		}))
	}
	shards := []uint64{1, 2, 3}
	deliver := func(n int, ups []svUp) {
		in := make([]dragonboat.ShardView, len(ups))
		for i, u := range ups {
			in[i] = u.view()
		}
		views[n-1].Update(in)
		tr.Emit(map[string]any{"ev": "update", "node": n, "ups": ups})
		svObserve(tr, n, views[n-1], shards)
	}
	gossip := func(from, to int) {
		views[to-1].MergeRemoteState(views[from-1].LocalState())
		tr.Emit(map[string]any{"ev": "gossip", "from": from, "to": to})
		svObserve(tr, to, views[to-1], shards)
	}
	for _, st := range steps { // TLC-generated (single shard): replayed on shard 1
		b, _ := json.Marshal(st)
		var x struct {
			T   string `json:"t"`
			N   int    `json:"n"`
			To  int    `json:"to"`
			Ups []svUp `json:"ups"`
		}
		_ = json.Unmarshal(b, &x)
		if x.T == "d" {
			for i := range x.Ups {
				x.Ups[i].Shard = 1
			}
			deliver(x.N, x.Ups)
		} else {
			gossip(x.N, x.To)
		}
	}
	member := func(n int) {
		what, id := []string{"join", "leave", "update"}[rng.Intn(3)], uint64(1+rng.Intn(3))
		views[n-1].VerifMembership(what, id)
		tr.Emit(map[string]any{"ev": "member", "node": n, "what": what, "id": id})
		svObserve(tr, n, views[n-1], shards)
	}
	// the node's own NodeHost now runs another set of shards (tables started, stopped, deleted) with other Raft facts
	setLocal := func(n int) {
		ups := []svUp{}
		for s := 1; s <= 3; s++ {
			if rng.Intn(2) == 0 {
				u := svRandomUp(rng, 3)
				u.Shard = uint64(s)
				ups = append(ups, u)
			}
		}
		localMu.Lock()
		local[n-1] = ups
		localMu.Unlock()
		tr.Emit(map[string]any{"ev": "local", "node": n, "ups": ups})
	}
	notify := func(n int) {
		views[n-1].VerifNotify() // the real Cluster.Notify
		tr.Emit(map[string]any{"ev": "notify", "node": n})
		svObserve(tr, n, views[n-1], shards)
	}
	for i := 0; i < nrand; i++ {
		switch r := rng.Intn(16); {
		case r >= 14:
			setLocal(1 + rng.Intn(3))
		case r >= 12:
			notify(1 + rng.Intn(3))
		case r >= 10:
			member(1 + rng.Intn(3))
		case r < 6:
			var ups []svUp
			for j, k := 0, 1+rng.Intn(4); j < k; j++ {
				ups = append(ups, svRandomUp(rng, 3))
			}
			deliver(1+rng.Intn(3), ups)
		case r < 8:
			a, b := 1+rng.Intn(3), 1+rng.Intn(3)
			if a != b {
				gossip(a, b)
			}
		default:
			// concurrent update calls on one node
			n := 1 + rng.Intn(3)
			var wg sync.WaitGroup
			var all [][]svUp
			for g := 0; g < 4; g++ {
				var ups []svUp
				for j := 0; j < 1+rng.Intn(3); j++ {
					ups = append(ups, svRandomUp(rng, 2))
				}
				all = append(all, ups)
			}
			for _, ups := range all {
				wg.Add(1)
				go func(ups []svUp) {
					defer wg.Done()
					in := make([]dragonboat.ShardView, len(ups))
					for i, u := range ups {
						in[i] = u.view()
					}
					for k := 0; k < 20; k++ {
						views[n-1].Update(in)
					}
				}(ups)
			}
			wg.Wait()
			for _, ups := range all {
				tr.Emit(map[string]any{"ev": "update", "node": n, "ups": ups})
			}
			svObserve(tr, n, views[n-1], shards)
		}
	}
}

func init() {
	subcmds["shardview"] = func(args []string) int {
		fs := flag.NewFlagSet("shardview", flag.ExitOnError)
		out := fs.String("out", "trace.ndjson", "trace")
		only := fs.Int("only", -1, "only behaviour k")
		in := fs.String("in", "", "TLC-generated behaviours")
		seed := fs.Int64("seed", 1, "seed")
		n := fs.Int("n", 50, "random behaviours (when no --in)")
		ops := fs.Int("ops", 30, "random steps per behaviour")
		_ = fs.Parse(args)
		tr, err := tracer.New(*out)
		if err != nil {
			die("%v", err)
		}
		var behs [][]map[string]any
		if *in != "" {
			data, err := os.ReadFile(*in)
			if err != nil {
				die("%v", err)
			}
			for _, line := range bytes.Split(bytes.TrimSpace(data), []byte("\n")) {
				var x struct {
					Steps []map[string]any `json:"steps"`
				}
				if err := json.Unmarshal(line, &x); err != nil {
					die("bad behaviour: %v", err)
				}
				behs = append(behs, x.Steps)
			}
		} else {
			behs = make([][]map[string]any, *n)
		}
		for b, steps := range behs {
			if *only >= 0 && b != *only {
				continue
			}
			rng := rand.New(rand.NewSource(*seed*6151 + int64(b)))
			start := tr.Lines() + 1
			nr := *ops
			if *in != "" {
				nr = 3
			}
			svRun(tr, rng, steps, nr)
			fmt.Printf("BEHAVIOUR %d lines %d-%d class 0\n", b, start, tr.Lines())
		}
		if err := tr.Close(); err != nil {
			die("%v", err)
		}
		return 0
	}
}
