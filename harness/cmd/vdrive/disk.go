package main

import (
	"bytes"
	"flag"
	"fmt"
	"math/rand"
	"os"
	"os/exec"
	"strings"

	"github.com/jamf/regatta/regattapb"

	"github.com/cockroachdb/pebble/vfs"
	"github.com/jamf/regatta/storage/table/fsm"
	sm "github.com/lni/dragonboat/v4/statemachine"

	"verif/harness/internal/crashfs"
	m "verif/harness/internal/model"
	"verif/harness/internal/tracer"
)

// disk : C04 / C08. The real fsm.FSM on a strict in-memory file system; for a scenario with N file-system
// operations the scenario is run N+1 times, crashing after operation k = 0..N (all non-durable state dropped),
// then the table is reopened, read, the remaining log entries are re-applied and the result read again.

type dstep struct {
	kind  string // open | update | sync | recover | close | lookup
	batch int    // update: batch number
	upto  uint64 // recover: snapshot index
	srt   fsm.SnapshotRecoveryType
}

type dscenario struct {
	hostExists bool // <base>/<hostname> already exists durably (another table lives on this host)
	log        []logEntry
	batches    [][]logEntry
	steps      []dstep
	srt        fsm.SnapshotRecoveryType // recovery type of the table under test
}

func markerCmd(rng *rand.Rand, i int) m.Cmd {
	k := []byte(fmt.Sprintf("e%02d", i))
	// entries that write no user key (only the index moves): a Sync that follows must cover them all the same
	switch rng.Intn(9) {
	case 0:
		return m.Cmd{T: "DUMMY"}
	case 1: // a transaction whose executed branch is empty
		return m.Cmd{T: "TXN", Fail: []m.Op{{T: "put", K: append(k, 'f'), V: []byte{byte(i)}}}}
	}
	switch rng.Intn(5) {
	case 0: // multi-key transaction: all or nothing
		return m.Cmd{T: "TXN", Succ: []m.Op{{T: "put", K: append(k, 'a'), V: []byte{byte(i)}}, {T: "put", K: append(k, 'b'), V: []byte{byte(i)}},
			{T: "put", K: []byte("shared"), V: []byte{byte(i)}}}}
	case 1:
		return m.Cmd{T: "PUTB", KVs: []m.KV{{K: append(k, 'x'), V: []byte{1}}, {K: append(k, 'y'), V: []byte{2}}}}
	case 2:
		return m.Cmd{T: "DEL", K: []byte("e"), End: m.End{Has: true, B: k}, Count: true} // deletes everything before
	default:
		return m.Cmd{T: "PUT", K: k, V: bytes.Repeat([]byte{byte(i)}, 1+rng.Intn(40))}
	}
}

func makeScenario(rng *rand.Rand) dscenario {
	var sc dscenario
	n := 3 + rng.Intn(5)
	for i := 1; i <= n; i++ {
		li := int64(-1)
		if rng.Intn(3) == 0 {
			li = int64(100 + i)
		}
		sc.log = append(sc.log, logEntry{I: uint64(i), LI: li, C: markerCmd(rng, i)})
	}
	for p := 0; p < n; {
		k := 1 + rng.Intn(3)
		if p+k > n {
			k = n - p
		}
		sc.batches = append(sc.batches, sc.log[p:p+k])
		p += k
	}
	sc.srt = fsm.SnapshotRecoveryType(rng.Intn(2))
	sc.hostExists = rng.Intn(2) == 0
	// one scenario in three ends with a batch of entries that write no user key, with a completed Sync before and after
	keylessTail := len(sc.batches) >= 2 && rng.Intn(3) == 0
	if keylessTail {
		last := sc.batches[len(sc.batches)-1]
		for j := range last {
			if j%2 == 0 {
				last[j].C = m.Cmd{T: "DUMMY"}
			} else {
				last[j].C = m.Cmd{T: "TXN", Fail: []m.Op{{T: "put", K: []byte("never"), V: []byte{1}}}}
			}
		}
	}
	sc.steps = append(sc.steps, dstep{kind: "open"})
	recovered := false
	for b := range sc.batches {
		sc.steps = append(sc.steps, dstep{kind: "update", batch: b})
		if rng.Intn(2) == 0 || (keylessTail && b >= len(sc.batches)-2) {
			sc.steps = append(sc.steps, dstep{kind: "sync"})
		}
		if !recovered && b+1 < len(sc.batches) && rng.Intn(3) == 0 {
			// a snapshot of a LATER log position arrives from another replica
			upto := sc.batches[b+1][len(sc.batches[b+1])-1].I
			sc.steps = append(sc.steps, dstep{kind: "recover", upto: upto, srt: fsm.SnapshotRecoveryType(rng.Intn(2))})
			recovered = true
		}
	}
	if rng.Intn(2) == 0 {
		sc.steps = append(sc.steps, dstep{kind: "close"})
	}
	return sc
}

// bigScenario : one apply batch whose first entry is a blind write of several MiB and whose second entry reads inside
// the batch (prev_kv): if the batch were committed in two halves a memtable flush could fall between them.
func bigScenario(rng *rand.Rand) dscenario {
	var sc dscenario
	big := func(i int) []byte {
		v := make([]byte, 9<<20)
		for j := range v {
			v[j] = byte(i + j)
		}
		return v
	}
	sc.log = []logEntry{
		{I: 1, LI: -1, C: m.Cmd{T: "PUT", K: []byte("e01"), V: []byte{1}}},
		{I: 2, LI: -1, C: m.Cmd{T: "PUT", K: []byte("e02"), V: big(2)}},
		{I: 3, LI: 7, C: m.Cmd{T: "SEQ", Cmds: []m.Cmd{{T: "PUT", K: []byte("e03a"), V: big(3)}, {T: "PUT", K: []byte("e03b"), V: []byte{3}, Prev: true},
			{T: "TXN", Succ: []m.Op{{T: "put", K: []byte("e03c"), V: big(4)}, {T: "put", K: []byte("e03d"), V: []byte{4}}}}}}},
		{I: 4, LI: -1, C: m.Cmd{T: "PUT", K: []byte("e04"), V: []byte{4}, Prev: true}},
	}
	sc.batches = [][]logEntry{sc.log[0:1], sc.log[1:4]}
	sc.srt = fsm.SnapshotRecoveryType(rng.Intn(2))
	sc.steps = []dstep{{kind: "open"}, {kind: "update", batch: 0}, {kind: "sync"}, {kind: "update", batch: 1}, {kind: "sync"}}
	return sc
}

func snapshotOf(log []logEntry, upto uint64, srt fsm.SnapshotRecoveryType) []byte {
	src := fsm.New("tbl", "/data", vfs.NewMem(), nil, nil, srt, nil)(10001, 1)
	if _, err := src.Open(nil); err != nil {
		die("src open: %v", err)
	}
	defer src.Close()
	var in []sm.Entry
	for _, e := range log {
		if e.I > upto {
			break
		}
		b, _ := e.C.PB("tbl", e.LI).MarshalVT()
		in = append(in, sm.Entry{Index: e.I, Cmd: b})
	}
	if _, err := src.Update(in); err != nil {
		die("src update: %v", err)
	}
	ctx, err := src.PrepareSnapshot()
	if err != nil {
		die("src prepare: %v", err)
	}
	var buf bytes.Buffer
	if err := src.SaveSnapshot(ctx, &buf, make(chan struct{})); err != nil {
		die("src save: %v", err)
	}
	return buf.Bytes()
}

// runScenario executes the steps on cfs; returns (floor, applied, bounds, firstrun) at the moment the crash
// fell (or at the end), and the number of FS operations performed.
type drun struct {
	floor, applied uint64
	bounds         []uint64
	firstOpenDone  bool
	f              sm.IOnDiskStateMachine
}

func runScenario(cfs *crashfs.FS, sc dscenario, snaps map[int][]byte) *drun {
	r := &drun{bounds: []uint64{}}
	skipTo := uint64(0)
	for si, st := range sc.steps {
		if cfs.Crashed() {
			break
		}
		switch st.kind {
		case "open":
			r.f = fsm.New("tbl", "/data", cfs, nil, nil, sc.srt, nil)(10001, 1)
			if _, err := r.f.Open(nil); err != nil {
				if cfs.Crashed() {
					return r
				}
				die("scenario open: %v", err)
			}
			if !cfs.Crashed() {
				r.firstOpenDone = true
			}
		case "update":
			b := sc.batches[st.batch]
			if b[len(b)-1].I <= skipTo {
				continue // already contained in the installed snapshot
			}
			var in []sm.Entry
			for _, e := range b {
				if e.I <= skipTo {
					continue
				}
				bb, _ := e.C.PB("tbl", e.LI).MarshalVT()
				in = append(in, sm.Entry{Index: e.I, Cmd: bb})
			}
			if _, err := r.f.Update(in); err != nil {
				if cfs.Crashed() {
					return r
				}
				die("scenario update: %v", err)
			}
			r.applied = b[len(b)-1].I
			r.bounds = append(r.bounds, r.applied)
		case "sync":
			err := r.f.Sync()
			if err != nil && !cfs.Crashed() {
				die("scenario sync: %v", err)
			}
			if !cfs.Crashed() {
				r.floor = r.applied
			}
		case "close":
			err := r.f.Close()
			if err != nil && !cfs.Crashed() {
				die("scenario close: %v", err)
			}
			if !cfs.Crashed() {
				r.floor = r.applied
			}
			r.f = nil
		case "recover":
			if r.applied >= st.upto {
				continue
			}
			// both outcomes of an interrupted install are legal: the old state or the snapshot's
			r.bounds = append(r.bounds, st.upto)
			prevApplied := r.applied
			r.applied = st.upto
			err := r.f.RecoverFromSnapshot(bytes.NewReader(snaps[si]), make(chan struct{}))
			if err != nil {
				if cfs.Crashed() {
					return r
				}
				die("scenario recover: %v", err)
			}
			_ = prevApplied
			if !cfs.Crashed() {
				r.floor = st.upto
			}
			skipTo = st.upto
		}
	}
	return r
}

// secondLife : the process that came back after the first crash. It opens the table (the index it reports is judged
// by a "recovered" event of its own), re-applies the rest of the log in batches of 1-2 with a Sync now and then, and
// crashes after its j-th file-system operation (j = 0: never; the number of operations is returned). r is updated to
// what the NEXT recovery may legally report: an apply-batch boundary of either life, at least the index covered by the
// last completed sync of either life, at most what had been applied.
func secondLife(tr *tracer.T, cfs *crashfs.FS, sc dscenario, r *drun, k, j int64, logJSON []map[string]any, total int64) (int64, bool) {
	rng := rand.New(rand.NewSource(k*7919 + int64(len(sc.log))))
	cfs.Arm(j)
	f := fsm.New("tbl", "/data", cfs, nil, nil, sc.srt, nil)(10001, 1)
	idx, err := f.Open(nil)
	if err != nil && cfs.Crashed() {
		return cfs.Ops(), true
	}
	if !cfs.Crashed() || err != nil {
		es := ""
		if err != nil {
			es = err.Error()
			if i := strings.Index(es, "/data"); i >= 0 {
				es = es[:i] + "<path>"
			}
		}
		if tr != nil {
			tr.Emit(map[string]any{"ev": "reset"})
			tr.Emit(map[string]any{"ev": "dlog", "log": logJSON})
			tr.Emit(map[string]any{"ev": "recovered", "rep": 1, "k": k, "of": total, "op": "first of two crashes", "err": es, "idx": idx,
				"bounds": r.bounds, "floor": r.floor, "applied": r.applied, "newrun": false, "firstrun": !r.firstOpenDone || r.floor == 0})
		}
		if err != nil {
			return cfs.Ops(), false
		}
		r.applied = idx // nothing above the reported index can come back
	}
	defer f.Close()
	var rest []logEntry
	for _, e := range sc.log {
		if e.I > idx {
			rest = append(rest, e)
		}
	}
	for p := 0; p < len(rest) && !cfs.Crashed(); {
		q := p + 1 + rng.Intn(2)
		if q > len(rest) {
			q = len(rest)
		}
		var in []sm.Entry
		for _, e := range rest[p:q] {
			bb, _ := e.C.PB("tbl", e.LI).MarshalVT()
			in = append(in, sm.Entry{Index: e.I, Cmd: bb})
		}
		if _, err := f.Update(in); err != nil {
			if cfs.Crashed() {
				break
			}
			die("second life update: %v", err)
		}
		cur := rest[q-1].I
		r.bounds = append(r.bounds, cur)
		if cur > r.applied {
			r.applied = cur
		}
		if rng.Intn(2) == 0 && !cfs.Crashed() {
			err := f.Sync()
			if err != nil && !cfs.Crashed() {
				die("second life sync: %v", err)
			}
			if !cfs.Crashed() && cur > r.floor {
				r.floor = cur
			}
		}
		p = q
	}
	return cfs.Ops(), true
}

func diskScenario(tr *tracer.T, sc dscenario, quickStride int, twice bool) (runs int) {
	snaps := map[int][]byte{}
	for si, st := range sc.steps {
		if st.kind == "recover" {
			snaps[si] = snapshotOf(sc.log, st.upto, st.srt)
		}
	}
	// dry run: count the operations
	dry := crashfs.New()
	dry.MemFS.MkdirAll("/data", 0o755)
	r0 := runScenario(dry, sc, snaps)
	if r0.f != nil {
		r0.f.Close()
	}
	total := dry.Ops()
	logJSON := make([]map[string]any, len(sc.log))
	for i, e := range sc.log {
		logJSON[i] = map[string]any{"i": e.I, "c": e.C, "li": e.LI}
	}
	// firstLife : a fresh file system, the scenario with a crash after operation k, everything non-durable dropped
	firstLife := func(k int64) (*crashfs.FS, *drun, string) {
		cfs := crashfs.New()
		// the operator-provided base directory is durable beforehand
		cfs.MemFS.MkdirAll("/data", 0o755)
		if d, err := cfs.MemFS.OpenDir("/"); err == nil {
			d.Sync()
			d.Close()
		}
		if sc.hostExists {
			hn, _ := os.Hostname()
			cfs.MemFS.MkdirAll("/data/"+hn, 0o755)
			if d, err := cfs.MemFS.OpenDir("/data/" + hn); err == nil {
				d.Sync()
				d.Close()
			}
		}
		if d, err := cfs.MemFS.OpenDir("/data"); err == nil {
			d.Sync()
			d.Close()
		}
		var r *drun
		if k == 0 {
			r = &drun{bounds: []uint64{}} // crash before anything happened
		} else {
			cfs.Arm(k)
			r = runScenario(cfs, sc, snaps)
		}
		if r.f != nil {
			_ = r.f.Close() // the process dies: nothing written from here on is durable
		}
		what, _ := cfs.LastOp.Load().(string)
		cfs.Recover()
		return cfs, r, what
	}
	for k := int64(0); k <= total+1; k += int64(quickStride) {
		cfs, r, what := firstLife(k)
		if twice {
			// repeated crashes: the recovering process (Open, re-apply, sync) crashes again after its j-th operation.
			// The first pass counts the operations of that second life, the second pass puts the crash at a random one.
			n2, _ := secondLife(nil, cfs, sc, r, k, 0, logJSON, total)
			cfs, r, what = firstLife(k)
			j := 1 + rand.New(rand.NewSource(k*31+int64(len(sc.log)))).Int63n(n2+1)
			_, ok := secondLife(tr, cfs, sc, r, k, j, logJSON, total)
			what2, _ := cfs.LastOp.Load().(string)
			what = fmt.Sprintf("%s ; second life op %d of %d: %s", what, j, n2, what2)
			cfs.Recover()
			if !ok {
				runs++
				continue
			}
		}
		// ---- reboot
		tr.Emit(map[string]any{"ev": "reset"})
		tr.Emit(map[string]any{"ev": "dlog", "log": logJSON})
		newrun := true
		if _, err := cfs.Stat("/data"); err == nil {
			if l, err := cfs.List("/data"); err == nil && len(l) > 0 {
				newrun = false
			}
		}
		rp := &rep{id: 1, fs: cfs, srt: sc.srt}
		rp.f = fsm.New("tbl", "/data", cfs, nil, nil, sc.srt, nil)(10001, 1)
		idx, err := rp.f.Open(nil)
		es := ""
		if err != nil {
			es = err.Error()
			if i := strings.Index(es, "/data"); i >= 0 {
				es = es[:i] + "<path>"
			}
		}
		tr.Emit(map[string]any{"ev": "recovered", "rep": 1, "k": k, "of": total, "op": what, "err": es, "idx": idx,
			"bounds": r.bounds, "floor": r.floor, "applied": r.applied, "newrun": newrun, "firstrun": !r.firstOpenDone || r.floor == 0})
		runs++
		if err != nil {
			continue
		}
		rp.lookup(tr, fullRange())
		rp.index(tr)
		// re-apply the entries after idx
		var rest []logEntry
		for _, e := range sc.log {
			if e.I > idx {
				rest = append(rest, e)
			}
		}
		for p := 0; p < len(rest); p += 2 {
			q := p + 2
			if q > len(rest) {
				q = len(rest)
			}
			rp.update(tr, rest[p:q])
		}
		rp.lookup(tr, fullRange())
		rp.index(tr)
		rp.close()
	}
	return runs
}

// stopReader delivers n bytes, then raises the stop signal (as dragonboat does when the node is stopped)
type stopReader struct {
	r     *bytes.Reader
	left  int
	stopc chan struct{}
	done  bool
}

func (s *stopReader) Read(p []byte) (int, error) {
	if s.left <= 0 {
		if !s.done {
			close(s.stopc)
			s.done = true
		}
		if len(p) > 1 {
			p = p[:1]
		}
		return s.r.Read(p)
	}
	if len(p) > s.left {
		p = p[:s.left]
	}
	n, err := s.r.Read(p)
	s.left -= n
	return n, err
}

// diskStop : C08 interrupted install by stop signal at every n-th byte of the snapshot: afterwards the table is
// entirely the old state and still usable; a retry then installs the snapshot.
func diskStop(tr *tracer.T, rng *rand.Rand) {
	sc := makeScenario(rng)
	n := len(sc.log)
	half := sc.log[n/2-1].I
	for _, srcType := range []fsm.SnapshotRecoveryType{fsm.RecoveryTypeSnapshot, fsm.RecoveryTypeCheckpoint} {
		snap := snapshotOf(sc.log, sc.log[n-1].I, srcType)
		points := []int{0, 1, 7, 8, 9, 16, len(snap) / 3, len(snap) / 2, len(snap) - 2, len(snap) - 1}
		for _, cut := range points {
			if cut < 0 || cut >= len(snap) {
				continue
			}
			tr.Emit(map[string]any{"ev": "reset"})
			rp := newRep(1, fsm.SnapshotRecoveryType(rng.Intn(2)))
			var first []logEntry
			for _, e := range sc.log {
				if e.I <= half {
					first = append(first, e)
				}
			}
			rp.update(tr, first)
			sr := &stopReader{r: bytes.NewReader(snap), left: cut, stopc: make(chan struct{})}
			err := rp.f.RecoverFromSnapshot(sr, sr.stopc)
			if err == nil {
				// the stop signal came too late: the install completed
				rp2 := newRep(2, srcType)
				rp2.update(tr, sc.log)
				tr.Emit(map[string]any{"ev": "prepare", "rep": 2})
				tr.Emit(map[string]any{"ev": "recover", "to": 1, "from": 2})
				rp2.close()
			}
			// old state (or, if it completed, the new one), completely; and the table keeps working
			rp.index(tr)
			rp.lookup(tr, fullRange())
			if err != nil {
				var rest []logEntry
				for _, e := range sc.log {
					if e.I > half {
						rest = append(rest, e)
					}
				}
				if len(rest) > 0 {
					rp.update(tr, rest)
				}
				rp.reopen(tr)
				rp.lookup(tr, fullRange())
			}
			rp.close()
		}
	}
}

// stopWriter raises the stop signal once n bytes of the snapshot have been written
type stopWriter struct {
	buf   bytes.Buffer
	left  int
	stopc chan struct{}
	done  bool
}

func (s *stopWriter) Write(p []byte) (int, error) {
	n, err := s.buf.Write(p)
	s.left -= n
	if s.left <= 0 && !s.done {
		close(s.stopc)
		s.done = true
	}
	return n, err
}

// diskStopSave : C08 interrupted SAVE. The stop signal fires after n bytes of SaveSnapshot's output. Either the save
// reports that it was stopped (the stream is then discarded, as dragonboat does), or it reports success - then what it
// wrote is installed on another replica and has to be the complete, faithful snapshot.
func diskStopSave(tr *tracer.T, rng *rand.Rand) {
	sc := makeScenario(rng)
	n := len(sc.log)
	for _, srcType := range []fsm.SnapshotRecoveryType{fsm.RecoveryTypeSnapshot, fsm.RecoveryTypeCheckpoint} {
		full := len(snapshotOf(sc.log, sc.log[n-1].I, srcType))
		for _, cut := range []int{0, 1, 9, 64, full / 4, full / 2, full - 64, full - 9, full - 1, full} {
			if cut < 0 {
				continue
			}
			tr.Emit(map[string]any{"ev": "reset"})
			src := newRep(2, srcType)
			src.update(tr, sc.log)
			ctx, err := src.f.PrepareSnapshot()
			if err != nil {
				die("prepare: %v", err)
			}
			tr.Emit(map[string]any{"ev": "prepare", "rep": 2})
			w := &stopWriter{left: cut, stopc: make(chan struct{})}
			if cut == 0 {
				close(w.stopc)
				w.done = true
			}
			err = src.f.SaveSnapshot(ctx, w, w.stopc)
			if err == nil {
				// the save says the stream is complete: install it
				dst := newRep(1, fsm.SnapshotRecoveryType(rng.Intn(2)))
				if rerr := dst.f.RecoverFromSnapshot(bytes.NewReader(w.buf.Bytes()), make(chan struct{})); rerr == nil {
					tr.Emit(map[string]any{"ev": "recover", "to": 1, "from": 2})
					dst.index(tr)
					dst.lookup(tr, fullRange())
				}
				// (an install that fails cleanly leaves the receiver as it was: covered by diskStop)
				dst.close()
			}
			// the saver itself is untouched by a stopped save
			src.index(tr)
			src.lookup(tr, fullRange())
			src.close()
		}
	}
}

// diskLazyRead : C08 reads that overlap an install. A lazy range sequence (what KV.IterateRange streams from) is
// created before RecoverFromSnapshot and consumed after it. Runs in a CHILD process: a panic there is an observation.
func diskLazyReadChild() int {
	rp := newRep(1, fsm.RecoveryTypeSnapshot)
	b, _ := (m.Cmd{T: "PUTB", KVs: []m.KV{{K: []byte("old1"), V: []byte("o")}, {K: []byte("old2"), V: []byte("o")}}}).PB("tbl", -1).MarshalVT()
	if _, err := rp.f.Update([]sm.Entry{{Index: 1, Cmd: b}}); err != nil {
		return 9
	}
	op := fullRange()
	res, err := rp.f.Lookup(fsm.IteratorRequest{RangeOp: op.RangePB()})
	if err != nil {
		fmt.Println("OUTCOME error")
		return 0
	}
	log := []logEntry{{I: 1, LI: -1, C: m.Cmd{T: "PUT", K: []byte("new1"), V: []byte("n")}}, {I: 2, LI: -1, C: m.Cmd{T: "PUT", K: []byte("new2"), V: []byte("n")}}}
	snap := snapshotOf(log, 2, fsm.RecoveryTypeSnapshot)
	if err := rp.f.RecoverFromSnapshot(bytes.NewReader(snap), make(chan struct{})); err != nil {
		return 9
	}
	var keys []string
	collectSeq(res, func(x *regattapb.ResponseOp_Range) {
		for _, kv := range x.Kvs {
			keys = append(keys, string(kv.Key))
		}
	})
	switch strings.Join(keys, ",") {
	case "old1,old2":
		fmt.Println("OUTCOME old")
	case "new1,new2":
		fmt.Println("OUTCOME new")
	default:
		fmt.Println("OUTCOME mixed:" + strings.Join(keys, ","))
	}
	return 0
}

func diskLazyRead(tr *tracer.T) {
	tr.Emit(map[string]any{"ev": "reset"})
	cmd := exec.Command(os.Args[0], "disk", "--child", "lazyread")
	out, err := cmd.CombinedOutput()
	outcome := "panic"
	if i := bytes.Index(out, []byte("OUTCOME ")); i >= 0 {
		outcome = strings.TrimSpace(strings.SplitN(string(out[i+8:]), "\n", 2)[0])
	} else if err == nil {
		outcome = "none"
	}
	detail := ""
	if outcome == "panic" {
		if i := bytes.Index(out, []byte("panic:")); i >= 0 {
			detail = strings.SplitN(string(out[i:]), "\n", 2)[0]
		}
	}
	tr.Emit(map[string]any{"ev": "lazyread", "outcome": outcome, "detail": detail})
}

func init() {
	subcmds["disk"] = func(args []string) int {
		fs := flag.NewFlagSet("disk", flag.ExitOnError)
		out := fs.String("out", "trace.ndjson", "trace")
		only := fs.Int("only", -1, "only behaviour k")
		seed := fs.Int64("seed", 1, "seed")
		n := fs.Int("n", 5, "scenarios")
		stride := fs.Int("stride", 1, "crash after every stride-th operation")
		mode := fs.String("mode", "crash", "crash | crash2 (a second crash while recovering from the first) | bigbatch | install (stop signals + lazy reads)")
		child := fs.String("child", "", "internal: child process role")
		_ = fs.Parse(args)
		if *child == "lazyread" {
			return diskLazyReadChild()
		}
		tr, err := tracer.New(*out)
		if err != nil {
			die("%v", err)
		}
		for b := 0; b < *n; b++ {
			if *only >= 0 && b != *only {
				continue
			}
			rng := rand.New(rand.NewSource(*seed*8191 + int64(b)))
			start := tr.Lines() + 1
			runs := 0
			if *mode == "install" {
				if b == 0 {
					diskLazyRead(tr)
				} else {
					diskStop(tr, rng)
					diskStopSave(tr, rng)
				}
			} else if *mode == "bigbatch" {
				runs = diskScenario(tr, bigScenario(rng), *stride, false)
			} else {
				sc := makeScenario(rng)
				runs = diskScenario(tr, sc, *stride, *mode == "crash2")
			}
			fmt.Printf("BEHAVIOUR %d lines %d-%d class %d\n", b, start, tr.Lines(), runs)
		}
		if err := tr.Close(); err != nil {
			die("%v", err)
		}
		return 0
	}
}
