package main

import (
	"bytes"
	"flag"
	"fmt"
	"math/rand"

	"github.com/jamf/regatta/storage/table/key"

	m "verif/harness/internal/model"
	"verif/harness/internal/tracer"
)

// keyenc : C12. Keys through the real key.Encoder / key.DecodeBytes / key.Decoder; the trace carries
// (key, type, encoded bytes, decoded key, decoded type); Trace_KeyEnc checks the relations.
func keyencOne(tr *tracer.T, kt key.Type, k []byte) {
	var buf bytes.Buffer
	n, err := key.NewEncoder(&buf).Encode(&key.Key{KeyType: kt, Key: k})
	if err != nil {
		die("encode: %v", err)
	}
	e := append([]byte{}, buf.Bytes()...)
	if n != len(e) {
		die("encode returned %d for %d bytes", n, len(e))
	}
	d, err := key.DecodeBytes(e)
	if err != nil {
		die("decode: %v", err)
	}
	tr.Emit(map[string]any{"ev": "enc", "k": m.K(k), "kt": int(kt), "e": m.K(e), "dk": m.K(append([]byte{}, d.Key...)), "dt": int(d.KeyType)})
}

func init() {
	subcmds["keyenc"] = func(args []string) int {
		fs := flag.NewFlagSet("keyenc", flag.ExitOnError)
		seed := fs.Int64("seed", 1, "seed")
		n := fs.Int("n", 10, "behaviours")
		out := fs.String("out", "trace.ndjson", "trace")
		only := fs.Int("only", -1, "only behaviour k")
		_ = fs.Parse(args)
		tr, err := tracer.New(*out)
		if err != nil {
			die("%v", err)
		}
		for b := 0; b < *n; b++ {
			if *only >= 0 && b != *only {
				continue
			}
			rng := rand.New(rand.NewSource(*seed*7919 + int64(b)))
			start := tr.Lines() + 1
			tr.Emit(map[string]any{"ev": "reset"})
			// bookkeeping keys as the state machine encodes them
			keyencOne(tr, key.TypeSystem, []byte("index"))
			keyencOne(tr, key.TypeSystem, []byte("leader_index"))
			var keys [][]byte
			if b == 0 {
				// exhaustive small universe: all strings over {0,1,254,255} up to length 3
				alpha := []byte{0, 1, 254, 255}
				var rec func(p []byte, d int)
				rec = func(p []byte, d int) {
					if len(p) > 0 {
						keys = append(keys, append([]byte{}, p...))
					}
					if d == 0 {
						return
					}
					for _, a := range alpha {
						rec(append(p, a), d-1)
					}
				}
				rec(nil, 3)
			} else {
				// random keys incl. the accepted maximum (1024) and the wildcard maximum (1019 x 0xFF)
				for i := 0; i < 40; i++ {
					var k []byte
					switch rng.Intn(8) {
					case 0:
						k = bytes.Repeat([]byte{255}, 1015+rng.Intn(10))
					case 1:
						k = make([]byte, 1015+rng.Intn(10))
						rng.Read(k)
					case 2:
						k = bytes.Repeat([]byte{0}, 1+rng.Intn(6))
					case 3:
						k = append(bytes.Repeat([]byte{255}, 1019), byte(rng.Intn(256)))
					case 4:
						k = []byte("index")
						if rng.Intn(2) == 0 {
							k = []byte("leader_index")
						}
					default:
						k = make([]byte, 1+rng.Intn(6))
						for j := range k {
							k[j] = []byte{0, 1, 'a', 254, 255, byte(rng.Intn(256))}[rng.Intn(6)]
						}
					}
					if len(k) > 1024 {
						k = k[:1024]
					}
					keys = append(keys, k)
					if rng.Intn(3) == 0 && len(k) < 1024 { // prefix pair
						keys = append(keys, append(append([]byte{}, k...), byte(rng.Intn(2)*255)))
					}
				}
			}
			rng.Shuffle(len(keys), func(i, j int) { keys[i], keys[j] = keys[j], keys[i] })
			for _, k := range keys {
				keyencOne(tr, key.TypeUser, k)
			}
			fmt.Printf("BEHAVIOUR %d lines %d-%d class 0\n", b, start, tr.Lines())
		}
		if err := tr.Close(); err != nil {
			die("%v", err)
		}
		return 0
	}
}
