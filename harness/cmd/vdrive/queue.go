package main

import (
	"bytes"
	"context"
	"encoding/json"
	"flag"
	"fmt"
	"os"
	"runtime"
	"time"

	"github.com/jamf/regatta/storage"

	"verif/harness/internal/tracer"
)

// queue : C11. TLC-generated behaviours on the real storage.IndexNotificationQueue with manual sweeps
// (hook VerifSweepC). After every step the driver round-trips through the event loop with Len - if that
// does not return within 2 s the loop is wedged - and inspects every waiter's channel without consuming.

type qStep struct {
	A string `json:"a"`
	W int    `json:"w"`
	T string `json:"t"`
	R uint64 `json:"r"`
}

type qWaiter struct {
	ch     <-chan error
	cancel context.CancelFunc
	done   bool // the caller saw the channel closed
}

func queueRun(tr *tracer.T, steps []qStep, nw int) bool {
	tr.Emit(map[string]any{"ev": "reset"})
	sweepC := make(chan time.Time)
	storage.VerifSweepC = func() <-chan time.Time { return sweepC }
	q := storage.NewNotificationQueue()
	go q.Run()
	defer q.Close()
	ws := make([]*qWaiter, nw+1)
	wedged := false
	withTimeout := func(f func()) bool {
		done := make(chan struct{})
		go func() { f(); close(done) }()
		select {
		case <-done:
			return true
		case <-time.After(2 * time.Second):
			return false
		}
	}
	obs := func() {
		ok := withTimeout(func() { q.Len("t"); q.Len("u") })
		if !ok {
			wedged = true
		}
		avail := make([]int, nw)
		for i := 1; i <= nw; i++ {
			w := ws[i]
			if w == nil || w.done {
				if w != nil && w.done {
					avail[i-1] = 2
				}
				continue
			}
			if len(w.ch) > 0 {
				avail[i-1] = 1
				continue
			}
			if ok { // only peek for "closed" when the loop is quiescent
				select {
				case err, open := <-w.ch:
					if !open {
						avail[i-1] = 2
					} else {
						// raced with a send: cannot happen after a completed round trip; report as buffered error
						_ = err
						avail[i-1] = 1
						die("unexpected value while peeking waiter %d", i)
					}
				default:
				}
			}
		}
		tr.Emit(map[string]any{"ev": "obs", "wedged": !ok, "avail": avail})
	}
	for _, s := range steps {
		if wedged {
			break
		}
		switch s.A {
		case "add":
			ctx, cancel := context.WithCancel(context.Background())
			var ch <-chan error
			if !withTimeout(func() { ch = q.Add(ctx, s.T, s.R) }) {
				wedged = true
				cancel()
				tr.Emit(map[string]any{"ev": "obs", "wedged": true, "avail": []int{}})
				continue
			}
			ws[s.W] = &qWaiter{ch: ch, cancel: cancel}
			tr.Emit(map[string]any{"ev": "add", "w": s.W, "t": s.T, "r": s.R})
		case "cancel":
			ws[s.W].cancel()
			tr.Emit(map[string]any{"ev": "cancel", "w": s.W})
		case "notify":
			if !withTimeout(func() { q.Notify(s.T, s.R) }) {
				wedged = true
				tr.Emit(map[string]any{"ev": "obs", "wedged": true, "avail": []int{}})
				continue
			}
			tr.Emit(map[string]any{"ev": "notify", "t": s.T, "r": s.R})
		case "sweep":
			select {
			case sweepC <- time.Now():
				tr.Emit(map[string]any{"ev": "sweep"})
			case <-time.After(2 * time.Second):
				wedged = true
				tr.Emit(map[string]any{"ev": "obs", "wedged": true, "avail": []int{}})
				continue
			}
		case "read":
			w := ws[s.W]
			res := "none"
			if w != nil && !w.done {
				select {
				case err, open := <-w.ch:
					if !open {
						res, w.done = "ok", true
					} else if err != nil {
						res = "err"
					}
				default:
				}
			} else if w != nil && w.done {
				res = "none"
			}
			tr.Emit(map[string]any{"ev": "read", "w": s.W, "res": res})
		}
		obs()
	}
	for _, w := range ws {
		if w != nil {
			w.cancel()
		}
	}
	if wedged {
		// leave the wedged loop behind; report goroutine count for the replay bundle
		fmt.Fprintf(os.Stderr, "queue wedged; goroutines=%d\n", runtime.NumGoroutine())
	}
	return wedged
}

func init() {
	subcmds["queue"] = func(args []string) int {
		fs := flag.NewFlagSet("queue", flag.ExitOnError)
		out := fs.String("out", "trace.ndjson", "trace")
		only := fs.Int("only", -1, "only behaviour k")
		in := fs.String("in", "", "TLC-generated behaviours")
		_ = fs.Parse(args)
		tr, err := tracer.New(*out)
		if err != nil {
			die("%v", err)
		}
		data, err := os.ReadFile(*in)
		if err != nil {
			die("%v", err)
		}
		for b, line := range bytes.Split(bytes.TrimSpace(data), []byte("\n")) {
			if *only >= 0 && b != *only {
				continue
			}
			var x struct {
				Steps []qStep `json:"steps"`
			}
			if err := json.Unmarshal(line, &x); err != nil {
				die("bad behaviour: %v", err)
			}
			start := tr.Lines() + 1
			queueRun(tr, x.Steps, 8)
			fmt.Printf("BEHAVIOUR %d lines %d-%d class 0\n", b, start, tr.Lines())
		}
		if err := tr.Close(); err != nil {
			die("%v", err)
		}
		return 0
	}
}
