package main

import (
	"bytes"
	"context"
	"encoding/json"
	"flag"
	"fmt"
	"math/rand"
	"os"
	"runtime"
	"sync"
	"sync/atomic"
	"time"

	"github.com/jamf/regatta/regattapb"
	"github.com/jamf/regatta/regattaserver"
	"github.com/jamf/regatta/storage"
	"google.golang.org/grpc"

	"verif/harness/internal/tracer"
)

// queue : C11. TLC-generated behaviours on the real storage.IndexNotificationQueue with manual sweeps
// (hook VerifSweepC). After every step the driver round-trips through the event loop with Len - if that
// does not return within 2 s the loop is wedged - and inspects every waiter's channel without consuming.

type qStep struct {
	A string  `json:"a"`
	W int     `json:"w"`
	T string  `json:"t"`
	R uint64  `json:"r"`
	B []qStep `json:"b"` // "burst": notifications delivered back to back, as an apply path serving several tables does
}

type qWaiter struct {
	ch     <-chan error
	cancel context.CancelFunc
	done   bool // the caller saw the channel closed
}

func queueRun(tr *tracer.T, steps []qStep, nw int) bool {
	tr.Emit(map[string]any{"ev": "reset"})
	sweepC := make(chan time.Time)
	storage.VerifSweepC = func() <-chan time.Time { return sweepC }
	q := storage.NewNotificationQueue()
	go q.Run()
	defer q.Close()
	ws := make([]*qWaiter, nw+1)
	wedged := false
	withTimeout := func(f func()) bool {
		done := make(chan struct{})
		go func() { f(); close(done) }()
		select {
		case <-done:
			return true
		case <-time.After(2 * time.Second):
			return false
		}
	}
	var obsOnce func() (bool, []int)
	obs := func() {
		// the queue may answer a little after the call that caused the answer returned: look until nothing moves any more
		ok, avail := obsOnce()
		for i := 0; ok && i < 25; i++ {
			time.Sleep(time.Duration(100*(i+1)) * time.Microsecond)
			ok2, avail2 := obsOnce()
			same := ok2 == ok && len(avail2) == len(avail)
			for j := range avail {
				same = same && avail[j] == avail2[j]
			}
			ok, avail = ok2, avail2
			if same {
				break
			}
		}
		tr.Emit(map[string]any{"ev": "obs", "wedged": !ok, "avail": avail})
	}
	obsOnce = func() (bool, []int) {
		ok := withTimeout(func() { q.Len("t"); q.Len("u") })
		if !ok {
			wedged = true
		}
		avail := make([]int, nw)
		for i := 1; i <= nw; i++ {
			w := ws[i]
			if w == nil || w.done {
				if w != nil && w.done {
					avail[i-1] = 2
				}
				continue
			}
			if len(w.ch) > 0 {
				avail[i-1] = 1
				continue
			}
			if ok { // only peek for "closed" when the loop is quiescent
				select {
				case err, open := <-w.ch:
					if !open {
						avail[i-1] = 2
					} else {
						// raced with a send: cannot happen after a completed round trip; report as buffered error
						_ = err
						avail[i-1] = 1
						die("unexpected value while peeking waiter %d", i)
					}
				default:
				}
			}
		}
		return ok, avail
	}
	for _, s := range steps {
		if wedged {
			break
		}
		switch s.A {
		case "add":
			ctx, cancel := context.WithCancel(context.Background())
			var ch <-chan error
			if !withTimeout(func() { ch = q.Add(ctx, s.T, s.R) }) {
				wedged = true
				cancel()
				tr.Emit(map[string]any{"ev": "obs", "wedged": true, "avail": []int{}})
				continue
			}
			ws[s.W] = &qWaiter{ch: ch, cancel: cancel}
			tr.Emit(map[string]any{"ev": "add", "w": s.W, "t": s.T, "r": s.R})
		case "cancel":
			ws[s.W].cancel()
			tr.Emit(map[string]any{"ev": "cancel", "w": s.W})
		case "notify":
			if !withTimeout(func() { q.Notify(s.T, s.R) }) {
				wedged = true
				tr.Emit(map[string]any{"ev": "obs", "wedged": true, "avail": []int{}})
				continue
			}
			tr.Emit(map[string]any{"ev": "notify", "t": s.T, "r": s.R})
		case "burst":
			if !withTimeout(func() {
				for _, b := range s.B {
					q.Notify(b.T, b.R)
				}
			}) {
				wedged = true
				tr.Emit(map[string]any{"ev": "obs", "wedged": true, "avail": []int{}})
				continue
			}
			for _, b := range s.B {
				tr.Emit(map[string]any{"ev": "notify", "t": b.T, "r": b.R})
			}
		case "sweep":
			select {
			case sweepC <- time.Now():
				tr.Emit(map[string]any{"ev": "sweep"})
			case <-time.After(2 * time.Second):
				wedged = true
				tr.Emit(map[string]any{"ev": "obs", "wedged": true, "avail": []int{}})
				continue
			}
		case "read":
			w := ws[s.W]
			res := "none"
			if w != nil && !w.done {
				select {
				case err, open := <-w.ch:
					if !open {
						res, w.done = "ok", true
					} else if err != nil {
						res = "err"
					}
				default:
				}
			} else if w != nil && w.done {
				res = "none"
			}
			tr.Emit(map[string]any{"ev": "read", "w": s.W, "res": res})
		}
		obs()
	}
	for _, w := range ws {
		if w != nil {
			w.cancel()
		}
	}
	if wedged {
		// leave the wedged loop behind; report goroutine count for the replay bundle
		fmt.Fprintf(os.Stderr, "queue wedged; goroutines=%d\n", runtime.NumGoroutine())
	}
	return wedged
}

// queueFirstAdd : the very first Add for a table while other goroutines ask for that table's length (the replication
// worker polls Len for its statistics) - per round a fresh queue and 22 tables that the queue has never seen; every
// waiter must be answered by the Notify that follows. Real concurrency: explored by repetition.
func queueFirstAdd(tr *tracer.T, rounds int) {
	const nt = 22
	for r := 0; r < rounds; r++ {
		tr.Emit(map[string]any{"ev": "reset"})
		sweepC := make(chan time.Time)
		storage.VerifSweepC = func() <-chan time.Time { return sweepC }
		q := storage.NewNotificationQueue()
		go q.Run()
		chans := make([]<-chan error, nt)
		cancels := make([]context.CancelFunc, nt)
		for w := 0; w < nt; w++ {
			table := fmt.Sprintf("f%d", w+1)
			var stop atomic.Bool
			var wg sync.WaitGroup
			start := make(chan struct{})
			for g := 0; g < 3; g++ {
				wg.Add(1)
				go func() {
					defer wg.Done()
					<-start
					for !stop.Load() {
						q.Len(table)
					}
				}()
			}
			ctx, cancel := context.WithCancel(context.Background())
			cancels[w] = cancel
			close(start)
			if w%2 == 1 {
				runtime.Gosched()
			}
			chans[w] = q.Add(ctx, table, 1)
			stop.Store(true)
			wg.Wait()
			tr.Emit(map[string]any{"ev": "add", "w": w + 1, "t": table, "r": 1})
		}
		for w := 0; w < nt; w++ {
			q.Notify(fmt.Sprintf("f%d", w+1), 1)
			tr.Emit(map[string]any{"ev": "notify", "t": fmt.Sprintf("f%d", w+1), "r": 1})
		}
		avail := make([]int, nt)
		deadline := time.Now().Add(500 * time.Millisecond)
		for w := 0; w < nt; w++ {
			for {
				closed := false
				select {
				case _, open := <-chans[w]:
					closed = !open
				default:
				}
				if closed {
					avail[w] = 2
					break
				}
				if time.Now().After(deadline) {
					break
				}
				time.Sleep(50 * time.Microsecond)
			}
		}
		tr.Emit(map[string]any{"ev": "obs", "wedged": false, "avail": avail})
		for _, c := range cancels {
			c()
		}
		q.Close()
	}
}

// queueRandom : long random schedules with many waiters and revisions (Go side; TLC validates)
func queueRandomSteps(rng *rand.Rand, nw, n int) []qStep {
	var steps []qStep
	added := 0
	for len(steps) < n {
		switch x := rng.Intn(100); {
		case x < 40 && added < nw:
			added++
			steps = append(steps, qStep{A: "add", W: added, T: []string{"t", "t", "t", "u"}[rng.Intn(4)], R: uint64(rng.Intn(12))})
		case x < 55 && added > 0:
			steps = append(steps, qStep{A: "cancel", W: 1 + rng.Intn(added)})
		case x < 70:
			steps = append(steps, qStep{A: "sweep"})
		case x < 80:
			steps = append(steps, qStep{A: "notify", T: []string{"t", "t", "u"}[rng.Intn(3)], R: uint64(rng.Intn(12))})
		case x < 88:
			// several tables are notified back to back (no other call in between)
			b := qStep{A: "burst"}
			for i, n := 0, 2+rng.Intn(3); i < n; i++ {
				b.B = append(b.B, qStep{A: "notify", T: []string{"t", "u"}[(i+rng.Intn(2))%2], R: uint64(rng.Intn(12))})
			}
			steps = append(steps, b)
		case added > 0:
			steps = append(steps, qStep{A: "read", W: 1 + rng.Intn(added)})
		}
	}
	return steps
}

// fakeLeader answers forwarded writes with a chosen revision (the leader cluster behind the follower)
type fakeLeader struct {
	regattapb.KVClient
	rev       uint64
	succeeded bool
}

func (f *fakeLeader) Put(ctx context.Context, in *regattapb.PutRequest, _ ...grpc.CallOption) (*regattapb.PutResponse, error) {
	return &regattapb.PutResponse{Header: &regattapb.ResponseHeader{Revision: f.rev}}, nil
}
func (f *fakeLeader) DeleteRange(ctx context.Context, in *regattapb.DeleteRangeRequest, _ ...grpc.CallOption) (*regattapb.DeleteRangeResponse, error) {
	return &regattapb.DeleteRangeResponse{Header: &regattapb.ResponseHeader{Revision: f.rev}}, nil
}
func (f *fakeLeader) Txn(ctx context.Context, in *regattapb.TxnRequest, _ ...grpc.CallOption) (*regattapb.TxnResponse, error) {
	return &regattapb.TxnResponse{Succeeded: f.succeeded, Header: &regattapb.ResponseHeader{Revision: f.rev}}, nil
}

// queueForward : the real ForwardingKVServer over the real queue. A forwarded write acknowledged by the leader at
// revision r must not be acknowledged by the follower API before this node has applied >= r.
func queueForward(tr *tracer.T, rng *rand.Rand) {
	tr.Emit(map[string]any{"ev": "reset"})
	storage.VerifSweepC = func() <-chan time.Time { return make(chan time.Time) }
	q := storage.NewNotificationQueue()
	go q.Run()
	defer q.Close()
	applied := uint64(0)
	for w := 1; w <= 10; w++ {
		rev := applied + uint64(1+rng.Intn(3))
		fl := &fakeLeader{rev: rev, succeeded: rng.Intn(2) == 0}
		srv := regattaserver.NewForwardingKVServer(nil, fl, q)
		op := []string{"put", "delete", "txn"}[rng.Intn(3)]
		done := make(chan error, 1)
		go func() {
			ctx, cancel := context.WithTimeout(context.Background(), 10*time.Second)
			defer cancel()
			var err error
			switch op {
			case "put":
				_, err = srv.Put(ctx, &regattapb.PutRequest{Table: []byte("t"), Key: []byte("k"), Value: []byte("v")})
			case "delete":
				_, err = srv.DeleteRange(ctx, &regattapb.DeleteRangeRequest{Table: []byte("t"), Key: []byte("k")})
			default:
				_, err = srv.Txn(ctx, &regattapb.TxnRequest{Table: []byte("t"),
					Compare: []*regattapb.Compare{{Key: []byte("k"), Result: regattapb.Compare_EQUAL, Target: regattapb.Compare_VALUE, TargetUnion: &regattapb.Compare_Value{Value: []byte("x")}}},
					Success: []*regattapb.RequestOp{{Request: &regattapb.RequestOp_RequestPut{RequestPut: &regattapb.RequestOp_Put{Key: []byte("k"), Value: []byte("a")}}}},
					Failure: []*regattapb.RequestOp{{Request: &regattapb.RequestOp_RequestPut{RequestPut: &regattapb.RequestOp_Put{Key: []byte("k"), Value: []byte("b")}}}}})
			}
			done <- err
		}()
		tr.Emit(map[string]any{"ev": "fwd", "w": w, "t": "t", "r": rev, "op": op, "succeeded": fl.succeeded})
		observe := func(wait time.Duration) {
			select {
			case err := <-done:
				es := ""
				if err != nil {
					es = err.Error()
				}
				done <- err
				tr.Emit(map[string]any{"ev": "fwdobs", "w": w, "returned": true, "err": es})
			case <-time.After(wait):
				tr.Emit(map[string]any{"ev": "fwdobs", "w": w, "returned": false, "err": ""})
			}
		}
		// replication is still behind: a lower notification, then the one that covers the write
		if rev > applied+1 {
			q.Notify("t", rev-1)
			q.Len("t")
			tr.Emit(map[string]any{"ev": "notify", "t": "t", "r": rev - 1})
		}
		observe(60 * time.Millisecond)
		q.Notify("t", rev)
		q.Len("t")
		applied = rev
		tr.Emit(map[string]any{"ev": "notify", "t": "t", "r": rev})
		observe(2 * time.Second)
		<-done
	}
}

func init() {
	subcmds["queue"] = func(args []string) int {
		fs := flag.NewFlagSet("queue", flag.ExitOnError)
		out := fs.String("out", "trace.ndjson", "trace")
		only := fs.Int("only", -1, "only behaviour k")
		in := fs.String("in", "", "TLC-generated behaviours")
		seed := fs.Int64("seed", 1, "seed")
		nrand := fs.Int("n", 0, "random behaviours (mode without --in)")
		firstadd := fs.Int("firstadd", 0, "rounds per behaviour of the first-Add-against-Len race (instead of random schedules)")
		_ = fs.Parse(args)
		tr, err := tracer.New(*out)
		if err != nil {
			die("%v", err)
		}
		if *in == "" {
			for b := 0; b < *nrand; b++ {
				if *only >= 0 && b != *only {
					continue
				}
				rng := rand.New(rand.NewSource(*seed*4409 + int64(b)))
				start := tr.Lines() + 1
				if *firstadd > 0 {
					queueFirstAdd(tr, *firstadd)
				} else if b%10 == 9 {
					queueForward(tr, rng)
				} else {
					queueRun(tr, queueRandomSteps(rng, 20, 60), 24)
				}
				fmt.Printf("BEHAVIOUR %d lines %d-%d class 1\n", b, start, tr.Lines())
			}
			if err := tr.Close(); err != nil {
				die("%v", err)
			}
			return 0
		}
		data, err := os.ReadFile(*in)
		if err != nil {
			die("%v", err)
		}
		for b, line := range bytes.Split(bytes.TrimSpace(data), []byte("\n")) {
			if *only >= 0 && b != *only {
				continue
			}
			var x struct {
				Steps []qStep `json:"steps"`
			}
			if err := json.Unmarshal(line, &x); err != nil {
				die("bad behaviour: %v", err)
			}
			start := tr.Lines() + 1
			queueRun(tr, x.Steps, 8)
			fmt.Printf("BEHAVIOUR %d lines %d-%d class 0\n", b, start, tr.Lines())
		}
		if err := tr.Close(); err != nil {
			die("%v", err)
		}
		return 0
	}
}
