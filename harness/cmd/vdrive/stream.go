package main

import (
	"bufio"
	"bytes"
	"context"
	"flag"
	"fmt"
	"hash/fnv"
	"io"
	"math/rand"
	"net"
	"os"
	"sync"
	"sync/atomic"
	"time"

	"github.com/jamf/regatta/regattapb"
	_ "github.com/jamf/regatta/regattaserver/encoding/gzip"
	_ "github.com/jamf/regatta/regattaserver/encoding/proto"
	_ "github.com/jamf/regatta/regattaserver/encoding/snappy"
	_ "github.com/jamf/regatta/regattaserver/encoding/zstd"
	"github.com/jamf/regatta/replication/snapshot"
	"google.golang.org/grpc"
	"google.golang.org/grpc/credentials/insecure"
	"google.golang.org/grpc/encoding"

	"verif/harness/internal/tracer"
)

// stream : C18. Real snapshot files, the real snapshot.Writer / snapshot.Reader over a real gRPC stream with
// driver-chosen chunk sizes, the registered codec with recycled pooled objects, the registered compressors
// under concurrent use.

func lh(b []byte) map[string]any {
	h := fnv.New64a()
	h.Write(b)
	return map[string]any{"len": len(b), "h": fmt.Sprintf("%x", h.Sum64())}
}

// chunkReader returns at most n bytes per Read, n varying per call
type chunkReader struct {
	r   io.Reader
	rng *rand.Rand
	max int
}

func (c *chunkReader) Read(p []byte) (int, error) {
	n := 1 + c.rng.Intn(c.max)
	if n > len(p) {
		n = len(p)
	}
	return c.r.Read(p[:n])
}

type snapSrv struct {
	regattapb.UnimplementedSnapshotServer
	path string
	rng  *rand.Rand
	max  int
}

// Stream ships the file as the real SnapshotServer does (io.Copy into snapshot.Writer), with odd chunk sizes
func (s *snapSrv) Stream(_ *regattapb.SnapshotRequest, srv regattapb.Snapshot_StreamServer) error {
	f, err := os.Open(s.path)
	if err != nil {
		return err
	}
	defer f.Close()
	if s.max >= 1<<20 {
		_, err = io.Copy(&snapshot.Writer{Sender: srv}, bufio.NewReaderSize(f, snapshot.DefaultSnapshotChunkSize))
		return err
	}
	w := &snapshot.Writer{Sender: srv}
	_, err = w.ReadFrom(&chunkReader{r: f, rng: s.rng, max: s.max})
	return err
}

func readAll(path string) ([]map[string]any, string) {
	rd, err := snapshot.OpenFile(path)
	if err != nil {
		return nil, err.Error()
	}
	defer rd.Close()
	var out []map[string]any
	buf := make([]byte, 8*1024*1024)
	for {
		n, err := rd.Read(buf)
		if err == io.EOF {
			break
		}
		if err != nil {
			return out, err.Error()
		}
		out = append(out, lh(buf[:n]))
	}
	if out == nil {
		out = []map[string]any{}
	}
	return out, ""
}

func streamFraming(tr *tracer.T, rng *rand.Rand) {
	// records: marshalled commands of many sizes, so that length prefixes fall everywhere relative to the 64 KiB
	// blocks of the snappy stream and to the chunk boundaries of the transport
	nrec := 1 + rng.Intn(400)
	sf, err := snapshot.NewTemp()
	if err != nil {
		die("temp: %v", err)
	}
	defer os.Remove(sf.Path())
	var written []map[string]any
	for i := 0; i < nrec; i++ {
		var rec []byte
		switch rng.Intn(10) {
		case 0:
			rec = []byte{} // zero-length write
		case 1:
			rec = make([]byte, 65500+rng.Intn(80)) // around the snappy block size
		case 2:
			rec = make([]byte, rng.Intn(300000))
		default:
			v := make([]byte, rng.Intn(700))
			rng.Read(v)
			rec, _ = (&regattapb.Command{Table: []byte("t"), Type: regattapb.Command_PUT, Kv: &regattapb.KeyValue{Key: []byte(fmt.Sprintf("k%d", i)), Value: v}}).MarshalVT()
		}
		if len(rec) > 0 && rng.Intn(3) == 0 {
			rng.Read(rec[:min(len(rec), 64)])
		}
		if _, err := sf.Write(rec); err != nil {
			die("write: %v", err)
		}
		written = append(written, lh(rec))
		if rng.Intn(50) == 0 {
			_ = sf.Sync()
		}
	}
	if err := sf.Sync(); err != nil {
		die("sync: %v", err)
	}
	sf.Close()
	// (1) read the file back directly
	got, es := readAll(sf.Path())
	tr.Emit(map[string]any{"ev": "frame", "path": "file", "written": written, "read": got, "err": es})
	// (2) ship it through a real gRPC stream and reassemble it as the replication worker does
	lis, err := net.Listen("tcp", "127.0.0.1:0")
	if err != nil {
		die("listen: %v", err)
	}
	srv := grpc.NewServer()
	max := []int{1, 3, 7, 8, 9, 100, 4096, 65536, 1 << 20}[rng.Intn(9)]
	regattapb.RegisterSnapshotServer(srv, &snapSrv{path: sf.Path(), rng: rand.New(rand.NewSource(rng.Int63())), max: max})
	go srv.Serve(lis)
	defer srv.Stop()
	opts := []grpc.DialOption{grpc.WithTransportCredentials(insecure.NewCredentials())}
	comp := []string{"", "gzip", "snappy", "zstd"}[rng.Intn(4)]
	if comp != "" {
		opts = append(opts, grpc.WithDefaultCallOptions(grpc.UseCompressor(comp)))
	}
	conn, err := grpc.Dial(lis.Addr().String(), opts...)
	if err != nil {
		die("dial: %v", err)
	}
	defer conn.Close()
	stream, err := regattapb.NewSnapshotClient(conn).Stream(context.Background(), &regattapb.SnapshotRequest{Table: []byte("t")})
	if err != nil {
		die("stream: %v", err)
	}
	dst, err := snapshot.NewTemp()
	if err != nil {
		die("temp: %v", err)
	}
	defer os.Remove(dst.Path())
	es = ""
	if rng.Intn(2) == 0 {
		_, err = io.Copy(dst.File, &snapshot.Reader{Stream: stream}) // Reader.WriteTo
	} else {
		// Reader.Read with pooled chunks. Its contract: the caller's buffer holds a whole chunk (io.ErrShortBuffer
		// otherwise), so read with a buffer of the largest chunk size, as a caller has to
		_, err = io.CopyBuffer(struct{ io.Writer }{dst.File}, struct{ io.Reader }{&snapshot.Reader{Stream: stream}}, make([]byte, snapshot.DefaultSnapshotChunkSize))
	}
	if err != nil {
		es = err.Error()
	}
	dst.File.Sync()
	dst.File.Close()
	if es == "" {
		got, es = readAll(dst.Path())
	}
	tr.Emit(map[string]any{"ev": "frame", "path": fmt.Sprintf("grpc chunk<=%d compressor=%q", max, comp), "written": written, "read": got, "err": es})
}

// streamAlignment : the length prefix of a record at every position relative to the 64 KiB blocks of the snappy stream
func streamAlignment(tr *tracer.T, rng *rand.Rand) {
	for first := 65470; first <= 65560; first++ {
		sf, err := snapshot.NewTemp()
		if err != nil {
			die("temp: %v", err)
		}
		var written []map[string]any
		for _, n := range []int{first, 100, 65500, 7, 1} {
			rec := make([]byte, n)
			rng.Read(rec)
			if _, err := sf.Write(rec); err != nil {
				die("write: %v", err)
			}
			written = append(written, lh(rec))
		}
		if err := sf.Sync(); err != nil {
			die("sync: %v", err)
		}
		sf.Close()
		got, es := readAll(sf.Path())
		os.Remove(sf.Path())
		tr.Emit(map[string]any{"ev": "frame", "path": fmt.Sprintf("file, first record %d bytes", first), "written": written, "read": got, "err": es})
	}
}

func streamCodec(tr *tracer.T, rng *rand.Rand) {
	codec := encoding.GetCodec("proto")
	if codec == nil {
		die("codec proto not registered")
	}
	u64 := func() *uint64 { v := rng.Uint64(); return &v }
	bs := func(n int) []byte {
		b := make([]byte, n)
		rng.Read(b)
		return b
	}
	msgs := []interface {
		MarshalVT() ([]byte, error)
	}{
		&regattapb.Command{Table: []byte("t"), Type: regattapb.Command_PUT, Kv: &regattapb.KeyValue{Key: bs(10), Value: bs(2000)}, LeaderIndex: u64()},
		&regattapb.Command{Type: regattapb.Command_DELETE, Kv: &regattapb.KeyValue{Key: bs(3)}, RangeEnd: []byte{}, PrevKvs: true, Count: true},
		&regattapb.Command{Type: regattapb.Command_DUMMY, LeaderIndex: new(uint64)},
		&regattapb.Command{Type: regattapb.Command_TXN, Txn: &regattapb.Txn{Compare: []*regattapb.Compare{{Key: bs(4), Target: regattapb.Compare_VALUE, TargetUnion: &regattapb.Compare_Value{Value: []byte{}}}},
			Success: []*regattapb.RequestOp{{Request: &regattapb.RequestOp_RequestPut{RequestPut: &regattapb.RequestOp_Put{Key: bs(2), Value: bs(5), PrevKv: true}}}, {}},
			Failure: []*regattapb.RequestOp{{Request: &regattapb.RequestOp_RequestRange{RequestRange: &regattapb.RequestOp_Range{Key: bs(1), RangeEnd: bs(1), Limit: 7, KeysOnly: true}}}}}},
		&regattapb.Command{Type: regattapb.Command_SEQUENCE, Sequence: []*regattapb.Command{{Type: regattapb.Command_PUT, Kv: &regattapb.KeyValue{Key: bs(2)}}, {Type: regattapb.Command_DUMMY}}},
		&regattapb.Command{Type: regattapb.Command_PUT_BATCH, Batch: []*regattapb.KeyValue{{Key: bs(1), Value: bs(1)}, {}, {Key: bs(3)}}},
		&regattapb.SnapshotChunk{Data: bs(5000), Len: 5000},
		&regattapb.SnapshotChunk{},
		&regattapb.ReplicateResponse{LeaderIndex: 9, Response: &regattapb.ReplicateResponse_CommandsResponse{CommandsResponse: &regattapb.ReplicateCommandsResponse{Commands: []*regattapb.ReplicateCommand{{LeaderIndex: 3, Command: &regattapb.Command{Type: regattapb.Command_PUT, Kv: &regattapb.KeyValue{Key: bs(2), Value: bs(70000)}}}}}}},
		&regattapb.ReplicateResponse{Response: &regattapb.ReplicateResponse_ErrorResponse{ErrorResponse: &regattapb.ReplicateErrResponse{Error: regattapb.ReplicateError_USE_SNAPSHOT}}},
		&regattapb.RangeResponse{Header: &regattapb.ResponseHeader{Revision: 4, RaftTerm: 2}, Kvs: []*regattapb.KeyValue{{Key: bs(2), Value: bs(0)}, {Key: bs(1), Value: bs(9)}}, More: true, Count: 2},
		&regattapb.TxnResponse{Succeeded: true, Responses: []*regattapb.ResponseOp{{Response: &regattapb.ResponseOp_ResponsePut{ResponsePut: &regattapb.ResponseOp_Put{}}}, {Response: &regattapb.ResponseOp_ResponseDeleteRange{ResponseDeleteRange: &regattapb.ResponseOp_DeleteRange{Deleted: 3}}}}},
	}
	// decode into recycled objects: a pooled object that held a LARGER message before
	for round := 0; round < 3; round++ {
		order := rng.Perm(len(msgs))
		for _, i := range order {
			in, err := codec.Marshal(msgs[i])
			if err != nil {
				die("marshal: %v", err)
			}
			var out []byte
			es := ""
			switch msgs[i].(type) {
			case *regattapb.Command:
				// (the code recycles Command objects only for marshalling - see below - never as a receive object)
				o := &regattapb.Command{}
				if err := codec.Unmarshal(append([]byte{}, in...), o); err != nil {
					es = err.Error()
				}
				out, _ = o.MarshalVT()
			case *regattapb.SnapshotChunk:
				o := regattapb.SnapshotChunkFromVTPool()
				if err := codec.Unmarshal(append([]byte{}, in...), o); err != nil {
					es = err.Error()
				}
				out, _ = o.MarshalVT()
				o.ReturnToVTPool()
			case *regattapb.ReplicateResponse:
				o := &regattapb.ReplicateResponse{}
				if err := codec.Unmarshal(append([]byte{}, in...), o); err != nil {
					es = err.Error()
				}
				out, _ = o.MarshalVT()
			case *regattapb.RangeResponse:
				o := &regattapb.RangeResponse{}
				if err := codec.Unmarshal(append([]byte{}, in...), o); err != nil {
					es = err.Error()
				}
				out, _ = o.MarshalVT()
			case *regattapb.TxnResponse:
				o := &regattapb.TxnResponse{}
				if err := codec.Unmarshal(append([]byte{}, in...), o); err != nil {
					es = err.Error()
				}
				out, _ = o.MarshalVT()
			}
			tr.Emit(map[string]any{"ev": "codec", "msg": fmt.Sprintf("%T #%d", msgs[i], i), "inp": lh(in), "out": lh(out), "err": es})
		}
	}
	// marshalling from a recycled Command as the snapshot producer (fsm.writeCommand) and the replication worker do:
	// the bytes must be those of a fresh object with the same fields
	for i := 0; i < 200; i++ {
		k, v := bs(1+rng.Intn(40)), bs(rng.Intn(3000))
		fresh, _ := (&regattapb.Command{Table: []byte("tbl"), Type: regattapb.Command_PUT, Kv: &regattapb.KeyValue{Key: k, Value: v}}).MarshalVT()
		c := regattapb.CommandFromVTPool()
		c.Table = []byte("tbl")
		c.Type = regattapb.Command_PUT
		c.Kv = &regattapb.KeyValue{Key: k, Value: v}
		pooled, err := codec.Marshal(c)
		c.ReturnToVTPool()
		es := ""
		if err != nil {
			es = err.Error()
		}
		tr.Emit(map[string]any{"ev": "codec", "msg": "recycled Command (marshal side)", "inp": lh(fresh), "out": lh(pooled), "err": es})
	}
}

func streamCompress(tr *tracer.T, rng *rand.Rand, rounds int) {
	for _, name := range []string{"gzip", "snappy", "zstd"} {
		c := encoding.GetCompressor(name)
		if c == nil {
			die("compressor %s not registered", name)
		}
		var ok, bad atomic.Int64
		var wg sync.WaitGroup
		for g := 0; g < 32; g++ {
			wg.Add(1)
			seed := rng.Int63()
			go func() {
				defer wg.Done()
				defer func() {
					if r := recover(); r != nil {
						bad.Add(1)
					}
				}()
				lr := rand.New(rand.NewSource(seed))
				for i := 0; i < rounds; i++ {
					n := []int{0, 1, 100, 4096, 70000, 300000}[lr.Intn(6)]
					p := make([]byte, n)
					if lr.Intn(2) == 0 {
						lr.Read(p)
					}
					var buf bytes.Buffer
					w, err := c.Compress(&buf)
					if err != nil {
						bad.Add(1)
						continue
					}
					_, _ = w.Write(p)
					if err := w.Close(); err != nil {
						bad.Add(1)
						continue
					}
					r, err := c.Decompress(&buf)
					if err != nil {
						bad.Add(1)
						continue
					}
					got, err := io.ReadAll(r)
					if err != nil || !bytes.Equal(got, p) {
						bad.Add(1)
						continue
					}
					ok.Add(1)
				}
			}()
		}
		// a compressor whose pooled state is shared by two users may also block for ever: that is an observation too
		fin := make(chan struct{})
		go func() { wg.Wait(); close(fin) }()
		select {
		case <-fin:
		case <-time.After(120 * time.Second):
			bad.Add(1000000)
		}
		tr.Emit(map[string]any{"ev": "compress", "name": name, "ok": ok.Load(), "bad": bad.Load()})
	}
}

// streamServed : requests decoded by a SERVING process. A server built by the real wiring (createAPIServer with the
// repository's default gRPC server options and the registered codec) receives many concurrent Put requests of the same
// size; every request names its own key and carries a value derived from that key. What each handler saw is what the
// table holds afterwards: every acknowledged key with ITS value, nothing else.
func streamServed(tr *tracer.T, rng *rand.Rand) {
	child := startAPIChild("leader")
	defer child.cmd.Process.Kill()
	conn, err := grpc.Dial(child.addr, grpc.WithTransportCredentials(insecure.NewCredentials()),
		grpc.WithDefaultCallOptions(grpc.MaxCallRecvMsgSize(64*1024*1024)))
	if err != nil {
		die("dial: %v", err)
	}
	defer conn.Close()
	kvc := regattapb.NewKVClient(conn)
	valOf := func(k string, n int) []byte {
		v := make([]byte, n)
		for i := range v {
			v[i] = k[i%len(k)] ^ byte(i)
		}
		return v
	}
	sent, failed := 0, 0
	var mu sync.Mutex
	acked := map[string]int{}
	for _, size := range []int{16, 900, 5000} {
		var wg sync.WaitGroup
		for g := 0; g < 24; g++ {
			wg.Add(1)
			go func(g int) {
				defer wg.Done()
				for i := 0; i < 40; i++ {
					k := fmt.Sprintf("~served~%05d-g%02d-i%03d", size, g, i) // all keys of one size class have the same length
					ctx, cancel := context.WithTimeout(context.Background(), 20*time.Second)
					_, err := kvc.Put(ctx, &regattapb.PutRequest{Table: []byte("known"), Key: []byte(k), Value: valOf(k, size)})
					cancel()
					mu.Lock()
					sent++
					if err != nil {
						failed++
					} else {
						acked[k] = size
					}
					mu.Unlock()
				}
			}(g)
		}
		wg.Wait()
	}
	ctx, cancel := context.WithTimeout(context.Background(), 60*time.Second)
	defer cancel()
	missing, wrong, extra := 0, 0, 0
	seen := map[string]bool{}
	st, err := kvc.IterateRange(ctx, &regattapb.RangeRequest{Table: []byte("known"), Key: []byte("~served~"), RangeEnd: []byte("~served~~")})
	if err != nil {
		die("iterate: %v", err)
	}
	for {
		r, err := st.Recv()
		if err != nil {
			break
		}
		for _, kv := range r.Kvs {
			k := string(kv.Key)
			seen[k] = true
			size, ok := acked[k]
			if !ok {
				extra++
			} else if string(kv.Value) != string(valOf(k, size)) {
				wrong++
			}
		}
	}
	for k := range acked {
		if !seen[k] {
			missing++
		}
	}
	tr.Emit(map[string]any{"ev": "served", "sent": sent, "failed": failed, "acked": len(acked), "missing": missing, "wrong": wrong, "extra": extra, "alive": child.alive()})
}

func init() {
	subcmds["stream"] = func(args []string) int {
		fs := flag.NewFlagSet("stream", flag.ExitOnError)
		out := fs.String("out", "trace.ndjson", "trace")
		only := fs.Int("only", -1, "only behaviour k")
		seed := fs.Int64("seed", 1, "seed")
		n := fs.Int("n", 10, "framing behaviours")
		rounds := fs.Int("rounds", 100, "compressor round trips per goroutine")
		_ = fs.Parse(args)
		tr, err := tracer.New(*out)
		if err != nil {
			die("%v", err)
		}
		for b := 0; b < *n+4; b++ {
			if *only >= 0 && b != *only {
				continue
			}
			rng := rand.New(rand.NewSource(*seed*2147483647 + int64(b)))
			start := tr.Lines() + 1
			tr.Emit(map[string]any{"ev": "reset"})
			switch {
			case b == *n:
				streamCodec(tr, rng)
			case b == *n+1:
				streamCompress(tr, rng, *rounds)
			case b == *n+2:
				streamAlignment(tr, rng)
			case b == *n+3:
				streamServed(tr, rng)
			default:
				streamFraming(tr, rng)
			}
			fmt.Printf("BEHAVIOUR %d lines %d-%d class 0\n", b, start, tr.Lines())
		}
		if err := tr.Close(); err != nil {
			die("%v", err)
		}
		return 0
	}
}
