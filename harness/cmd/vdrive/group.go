package main

import (
	"context"
	"flag"
	"fmt"
	"math/rand"
	"os"
	"sort"
	"sync"
	"sync/atomic"
	"time"

	"github.com/jamf/regatta/regattapb"
	"github.com/jamf/regatta/storage/table/fsm"
	sm "github.com/lni/dragonboat/v4/statemachine"

	"verif/harness/internal/eng"
	m "verif/harness/internal/model"
	"verif/harness/internal/tracer"
)

// group : C10. Three real engines forming one Raft cluster in this process; concurrent clients write and read
// through chosen nodes while one replica is made to lag (its FSM.Update parks in the verif hook).

type gWrite struct {
	s, e int64 // invoke / return sequence numbers
	rev  uint64
	cmd  m.Cmd
	val  int
	resp []m.Resp
	node int
}
type gRead struct {
	s, e int64
	lin  bool
	op   m.Op
	r    m.Resp
	txn  *m.Cmd
	ok   bool
	rs   []m.Resp
	node int
}

func groupRun(tr *tracer.T, rng *rand.Rand, nOps int, lagLeader bool) {
	tr.Emit(map[string]any{"ev": "reset"})
	var seq atomic.Int64
	var posRepV atomic.Uint64
	var lagRep atomic.Uint64 // the replica whose state machine is made to lag (chosen once the shard has a leader)
	var slow atomic.Uint64
	// lag control + log positions observed on replica 1
	var lagMu sync.Mutex
	lagCond := sync.NewCond(&lagMu)
	lagging := false
	var tableShard atomic.Uint64
	posMu := sync.Mutex{}
	positions := map[uint64][]byte{} // log index -> command bytes as applied on replica 1
	fsm.VerifUpdateHook = func(shard, replica uint64, ents []sm.Entry) {
		if shard != tableShard.Load() {
			return
		}
		if replica == posRepV.Load() {
			posMu.Lock()
			for _, e := range ents {
				positions[e.Index] = append([]byte{}, e.Cmd...)
			}
			posMu.Unlock()
		}
		if replica == lagRep.Load() {
			lagMu.Lock()
			for lagging {
				lagCond.Wait()
			}
			lagMu.Unlock()
		} else if slow.Add(1)%3 == 0 {
			// the other replicas apply a little slowly now and then, so that concurrent proposals are
			// committed together and reach Update as ONE batch of several entries
			time.Sleep(1500 * time.Microsecond)
		}
	}
	defer func() { fsm.VerifUpdateHook = nil }()
	c, err := eng.New(3, 0, nil)
	if err != nil {
		die("cluster: %v", err)
	}
	defer c.Close()
	if err := c.CreateTable("t"); err != nil {
		die("%v", err)
	}
	at, _ := c.Engines[0].GetTable("t")
	// which replica lags: the shard's Raft leader (its log is complete but its state machine is behind: writes are
	// acknowledged through the other nodes) or a follower
	leaderRep := uint64(0)
	for i := 0; i < 400 && leaderRep == 0; i++ {
		if id, _, ok, err := c.Engines[0].NodeHost.GetLeaderID(at.ClusterID); err == nil && ok {
			leaderRep = id
		} else {
			time.Sleep(5 * time.Millisecond)
		}
	}
	if leaderRep == 0 {
		die("table shard has no leader")
	}
	lag := leaderRep
	if !lagLeader {
		lag = leaderRep%3 + 1
	}
	lagNode := int(lag) - 1
	var fast []int // the nodes that do not lag
	for i := 0; i < 3; i++ {
		if i != lagNode {
			fast = append(fast, i)
		}
	}
	posRep := uint64(fast[0] + 1) // log positions are observed on a replica that does not lag
	tableShard.Store(at.ClusterID)
	posRepV.Store(posRep)
	lagRep.Store(lag)
	keys := [][]byte{[]byte("a"), []byte("b"), []byte("c")}
	var mu sync.Mutex
	var writes []gWrite
	var reads []gRead
	ctxT := func() (context.Context, context.CancelFunc) {
		return context.WithTimeout(context.Background(), 10*time.Second)
	}
	var uniq atomic.Int64
	// a request the cluster turned away or did not answer in time (leader change on a loaded machine): a read is
	// simply no observation; a write may or may not have taken effect, so the history is no longer known exactly and
	// the behaviour is given up (nothing of it is emitted)
	var abort atomic.Bool
	doWrite := func(lr *rand.Rand, node int) {
		e := c.Engines[node]
		k := keys[lr.Intn(len(keys))]
		v := []byte(fmt.Sprintf("v%d", uniq.Add(1)))
		ctx, cancel := ctxT()
		defer cancel()
		w := gWrite{node: node + 1}
		switch x := lr.Intn(10); {
		case x < 4:
			w.cmd = m.Cmd{T: "PUT", K: k, V: v, Prev: lr.Intn(4) != 0}
			w.s = seq.Add(1)
			r, err := e.Put(ctx, &regattapb.PutRequest{Table: []byte("t"), Key: k, Value: v, PrevKv: w.cmd.Prev})
			w.e = seq.Add(1)
			if err != nil {
				abort.Store(true)
				return
			}
			w.rev, w.val = r.Header.Revision, 1
			rp := m.Resp{T: "put"}
			if r.PrevKv != nil {
				rp.Prev = []m.KV{{K: r.PrevKv.Key, V: r.PrevKv.Value}}
			}
			w.resp = []m.Resp{rp}
		case x < 6:
			w.cmd = m.Cmd{T: "DEL", K: k, Prev: true, Count: true}
			if lr.Intn(2) == 0 {
				w.cmd.End = m.End{Has: true, B: []byte{0}}
			}
			w.s = seq.Add(1)
			r, err := e.Delete(ctx, &regattapb.DeleteRangeRequest{Table: []byte("t"), Key: k, RangeEnd: w.cmd.End.Bytes(), PrevKv: true, Count: true})
			w.e = seq.Add(1)
			if err != nil {
				abort.Store(true)
				return
			}
			w.rev, w.val = r.Header.Revision, 1
			rp := m.Resp{T: "del", Deleted: r.Deleted}
			for _, kv := range r.PrevKvs {
				rp.Prev = append(rp.Prev, m.KV{K: kv.Key, V: kv.Value})
			}
			w.resp = []m.Resp{rp}
		default:
			// transactions, including ones whose executed branch is EMPTY
			t := m.Cmd{T: "TXN", Cmp: []m.Cmp{{K: k, Res: "EQUAL", HasVal: lr.Intn(2) == 0, Val: []byte("never")}}}
			switch lr.Intn(3) {
			case 0: // success branch writes, failure branch empty
				t.Succ = []m.Op{{T: "put", K: k, V: v, Prev: true}}
			case 1: // failure branch writes, success branch empty
				t.Fail = []m.Op{{T: "put", K: k, V: v, Prev: true}, {T: "range", K: []byte("a"), End: m.End{Has: true, B: []byte{0}}}}
			default:
				t.Succ = []m.Op{{T: "del", K: k, Prev: true}}
				t.Fail = []m.Op{{T: "put", K: k, V: v}}
			}
			w.cmd = t
			pb := t.TxnPB()
			w.s = seq.Add(1)
			r, err := e.Txn(ctx, &regattapb.TxnRequest{Table: []byte("t"), Compare: pb.Compare, Success: pb.Success, Failure: pb.Failure})
			w.e = seq.Add(1)
			if err != nil {
				abort.Store(true)
				return
			}
			w.rev = r.Header.Revision
			if r.Succeeded {
				w.val = 1
			}
			w.resp = m.RespsFromPB(r.Responses)
		}
		mu.Lock()
		writes = append(writes, w)
		mu.Unlock()
	}
	doRead := func(lr *rand.Rand, node int) {
		e := c.Engines[node]
		ctx, cancel := ctxT()
		defer cancel()
		rd := gRead{node: node + 1, lin: lr.Intn(2) == 0}
		if lr.Intn(4) == 0 {
			// read-only transaction: always linearizable
			t := m.Cmd{T: "TXN", Succ: []m.Op{{T: "range", K: []byte("a"), End: m.End{Has: true, B: []byte{0}}}, {T: "range", K: []byte("b")}}}
			if lr.Intn(2) == 0 {
				// a predicate whose outcome depends on the content: branch and values must come from one log position
				t.Cmp = []m.Cmp{{K: keys[lr.Intn(len(keys))], Res: []string{"LESS", "GREATER"}[lr.Intn(2)], HasVal: true, Val: []byte(fmt.Sprintf("v%d", 1+lr.Intn(9)))}}
				t.Fail = []m.Op{{T: "range", K: []byte("c")}, {T: "range", K: []byte("a"), End: m.End{Has: true, B: []byte{0}}, KeysOnly: true}}
			}
			pb := t.TxnPB()
			rd.txn, rd.lin = &t, true
			rd.s = seq.Add(1)
			r, err := e.Txn(ctx, &regattapb.TxnRequest{Table: []byte("t"), Compare: pb.Compare, Success: pb.Success, Failure: pb.Failure})
			rd.e = seq.Add(1)
			if err != nil {
				return
			}
			rd.ok, rd.rs = r.Succeeded, m.RespsFromPB(r.Responses)
		} else {
			rd.op = m.Op{T: "range", K: []byte("a"), End: m.End{Has: true, B: []byte{0}}}
			if lr.Intn(3) == 0 {
				rd.op = m.Op{T: "range", K: keys[lr.Intn(len(keys))]}
			}
			rd.s = seq.Add(1)
			r, err := e.Range(ctx, &regattapb.RangeRequest{Table: []byte("t"), Key: rd.op.K, RangeEnd: rd.op.End.Bytes(), Linearizable: rd.lin})
			rd.e = seq.Add(1)
			if err != nil {
				return
			}
			rd.r = m.Resp{T: "range", Count: r.Count, More: r.More, Sz: r.SizeVT()}
			for _, kv := range r.Kvs {
				rd.r.Kvs = append(rd.r.Kvs, m.KV{K: kv.Key, V: kv.Value})
			}
		}
		mu.Lock()
		reads = append(reads, rd)
		mu.Unlock()
	}
	var wg sync.WaitGroup
	for cl := 0; cl < 6; cl++ {
		wg.Add(1)
		go func(cl int) {
			defer wg.Done()
			lr := rand.New(rand.NewSource(rng.Int63()))
			for i := 0; i < nOps && !abort.Load(); i++ {
				node := fast[lr.Intn(2)] // writers and most readers use the nodes that do not lag
				if lr.Intn(2) == 0 {
					doWrite(lr, node)
					if lr.Intn(3) == 0 {
						// the same client reads right after its acknowledged write, through the replica that lags
						doRead(lr, lagNode)
					}
				} else {
					if lr.Intn(2) == 0 {
						node = lagNode
					}
					doRead(lr, node)
				}
			}
		}(cl)
	}
	// lag controller: replica 3 stops applying for a while, several times
	stopLag := make(chan struct{})
	go func() {
		for {
			select {
			case <-stopLag:
				lagMu.Lock()
				lagging = false
				lagCond.Broadcast()
				lagMu.Unlock()
				return
			default:
			}
			lagMu.Lock()
			lagging = true
			lagMu.Unlock()
			time.Sleep(time.Duration(5+rng.Intn(40)) * time.Millisecond)
			lagMu.Lock()
			lagging = false
			lagCond.Broadcast()
			lagMu.Unlock()
			time.Sleep(time.Duration(1+rng.Intn(10)) * time.Millisecond)
		}
	}()
	wg.Wait()
	close(stopLag)
	if abort.Load() {
		fmt.Fprintln(os.Stderr, "behaviour given up: a write was not acknowledged")
		return
	}
	// ---- emit: writes in revision order (ties / zero revisions keep invocation order), then reads
	sort.SliceStable(writes, func(i, j int) bool { return writes[i].rev < writes[j].rev })
	// the observed replica may itself be a little behind the node that acknowledged the last writes: let it catch up
	if len(writes) > 0 {
		maxRev := writes[len(writes)-1].rev
		deadline := time.Now().Add(10 * time.Second)
		for {
			posMu.Lock()
			_, ok := positions[maxRev]
			posMu.Unlock()
			if ok || time.Now().After(deadline) {
				break
			}
			time.Sleep(2 * time.Millisecond)
		}
	}
	posMu.Lock()
	for _, w := range writes {
		_, known := positions[w.rev]
		tr.Emit(map[string]any{"ev": "gwrite", "rev": w.rev, "c": w.cmd, "val": w.val, "rs": w.resp, "s": w.s, "e": w.e, "node": w.node, "logpos": known})
	}
	posMu.Unlock()
	for _, r := range reads {
		if r.txn != nil {
			tr.Emit(map[string]any{"ev": "grotxn", "c": *r.txn, "ok": r.ok, "rs": r.rs, "s": r.s, "e": r.e, "node": r.node})
		} else {
			tr.Emit(map[string]any{"ev": "gread", "lin": r.lin, "op": r.op, "r": r.r, "s": r.s, "e": r.e, "node": r.node})
		}
	}
}

func init() {
	subcmds["group"] = func(args []string) int {
		fs := flag.NewFlagSet("group", flag.ExitOnError)
		out := fs.String("out", "trace.ndjson", "trace")
		only := fs.Int("only", -1, "only behaviour k")
		seed := fs.Int64("seed", 1, "seed")
		n := fs.Int("n", 3, "behaviours")
		ops := fs.Int("ops", 25, "operations per client")
		_ = fs.Parse(args)
		tr, err := tracer.New(*out)
		if err != nil {
			die("%v", err)
		}
		for b := 0; b < *n; b++ {
			if *only >= 0 && b != *only {
				continue
			}
			rng := rand.New(rand.NewSource(*seed*12289 + int64(b)))
			start := tr.Lines() + 1
			groupRun(tr, rng, *ops, b%2 == 0)
			fmt.Printf("BEHAVIOUR %d lines %d-%d class 0\n", b, start, tr.Lines())
		}
		if err := tr.Close(); err != nil {
			die("%v", err)
		}
		return 0
	}
}
