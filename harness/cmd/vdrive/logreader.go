package main

import (
	"bytes"
	"context"
	"encoding/json"
	"errors"
	"flag"
	"fmt"
	"io"
	"math/rand"
	"os"
	"sync"

	"github.com/jamf/regatta/regattapb"
	"github.com/jamf/regatta/regattaserver"
	serrors "github.com/jamf/regatta/storage/errors"
	"github.com/jamf/regatta/storage/logreader"
	"github.com/jamf/regatta/storage/table"
	"github.com/jamf/regatta/storage/table/fsm"
	"github.com/lni/dragonboat/v4"
	"github.com/lni/dragonboat/v4/client"
	"github.com/lni/dragonboat/v4/raftpb"
	sm "github.com/lni/dragonboat/v4/statemachine"
	"go.uber.org/zap"
	"google.golang.org/grpc/metadata"

	"verif/harness/internal/gate"
	"verif/harness/internal/tracer"
)

// logreader : C06. The real logreader.Cached / Simple and the real LogServer.Replicate on top of a
// harness Raft log that follows dragonboat's ReadonlyLogReader contract (internal/logdb/logreader.go:
// GetRange = (marker+1, last); Entries = longest prefix within maxSize but at least one entry).

const lrUnit = 1000 // one model size unit in bytes

type fakeLog struct {
	mu      sync.Mutex
	entries []raftpb.Entry // entries[i] has index i+1
	marker  uint64
	applied uint64
}

func (f *fakeLog) GetRange() (uint64, uint64) {
	f.mu.Lock()
	defer f.mu.Unlock()
	return f.marker + 1, uint64(len(f.entries))
}
func (f *fakeLog) NodeState() (raftpb.State, raftpb.Membership) {
	return raftpb.State{}, raftpb.Membership{}
}
func (f *fakeLog) Term(uint64) (uint64, error) { return 1, nil }
func (f *fakeLog) Snapshot() raftpb.Snapshot   { return raftpb.Snapshot{} }
func (f *fakeLog) Entries(low, high, maxSize uint64) ([]raftpb.Entry, error) {
	f.mu.Lock()
	defer f.mu.Unlock()
	if low > high {
		return nil, fmt.Errorf("high < low")
	}
	if low <= f.marker {
		return nil, errors.New("compacted")
	}
	if high > uint64(len(f.entries))+1 {
		return nil, errors.New("unavailable")
	}
	var out []raftpb.Entry
	size := uint64(0)
	for i := low; i < high; i++ {
		e := f.entries[i-1]
		size += uint64(e.Size())
		out = append(out, e)
		if size > maxSize {
			break
		}
	}
	if size > maxSize && len(out) > 1 {
		out = out[:len(out)-1]
	}
	return out, nil
}

type fakeQuerier struct{ l *fakeLog }

func (q fakeQuerier) GetLogReader(uint64) (dragonboat.ReadonlyLogReader, error) { return q.l, nil }

// fakeHost serves LocalIndex for table.ActiveTable
type fakeHost struct{ l *fakeLog }

func (h fakeHost) idx() (interface{}, error) {
	h.l.mu.Lock()
	defer h.l.mu.Unlock()
	return &fsm.IndexResponse{Index: h.l.applied}, nil
}
func (h fakeHost) SyncRead(context.Context, uint64, interface{}) (interface{}, error) { return h.idx() }
func (h fakeHost) StaleRead(uint64, interface{}) (interface{}, error)                 { return h.idx() }
func (h fakeHost) SyncPropose(context.Context, *client.Session, []byte) (sm.Result, error) {
	return sm.Result{}, errors.New("not supported")
}
func (h fakeHost) GetNoOPSession(uint64) *client.Session { return nil }

type fakeTables struct{ h fakeHost }

func (t fakeTables) GetTables() ([]table.Table, error) { return nil, nil }
func (t fakeTables) GetTable(name string) (table.ActiveTable, error) {
	if name != "tbl" {
		return table.ActiveTable{}, serrors.ErrTableNotFound
	}
	return table.Table{Name: "tbl", ClusterID: 10001}.AsActive(t.h), nil
}
func (t fakeTables) Restore(string, io.Reader) error         { return nil }
func (t fakeTables) CreateTable(string) (table.Table, error) { return table.Table{}, nil }
func (t fakeTables) DeleteTable(string) error                { return nil }

// gatedReader parks every QueryRaftLog of a session at a gate
type gatedReader struct {
	inner  logreader.Interface
	s      *gate.Sched
	thread int
}

func (g gatedReader) QueryRaftLog(ctx context.Context, id uint64, r dragonboat.LogRange, max uint64) ([]raftpb.Entry, error) {
	g.s.Gate(g.thread)
	return g.inner.QueryRaftLog(ctx, id, r, max)
}

type recStream struct {
	ctx context.Context
	tr  *tracer.T
	s   int
}

func (r *recStream) SetHeader(metadata.MD) error  { return nil }
func (r *recStream) SendHeader(metadata.MD) error { return nil }
func (r *recStream) SetTrailer(metadata.MD)       {}
func (r *recStream) Context() context.Context     { return r.ctx }
func (r *recStream) SendMsg(interface{}) error    { return nil }
func (r *recStream) RecvMsg(interface{}) error    { return nil }
func (r *recStream) Send(m *regattapb.ReplicateResponse) error {
	ev := map[string]any{"ev": "msg", "s": r.s, "li": m.LeaderIndex, "idx": []uint64{}, "labels": []uint64{}, "kinds": []string{}}
	switch x := m.Response.(type) {
	case *regattapb.ReplicateResponse_ErrorResponse:
		ev["kind"] = x.ErrorResponse.Error.String()
	case *regattapb.ReplicateResponse_CommandsResponse:
		ev["kind"] = "CMDS"
		idx, labels, kinds := []uint64{}, []uint64{}, []string{} // never JSON null: a message without commands is an observation
		for _, c := range x.CommandsResponse.Commands {
			idx = append(idx, c.LeaderIndex)
			li := uint64(0)
			if c.Command.LeaderIndex != nil {
				li = *c.Command.LeaderIndex
			}
			labels = append(labels, li)
			k := "enc"
			if c.Command.Type == regattapb.Command_DUMMY {
				k = "dummy"
			} else if c.Command.Kv == nil || string(c.Command.Kv.Key) != fmt.Sprintf("k%d", c.LeaderIndex) {
				k = "corrupt"
			}
			kinds = append(kinds, k)
		}
		ev["idx"], ev["labels"], ev["kinds"] = idx, labels, kinds
	default:
		ev["kind"] = "EMPTY"
	}
	r.tr.Emit(ev)
	return nil
}

type lrStep struct {
	T     string `json:"t"`
	S     int    `json:"s"`
	First uint64 `json:"first"`
	Size  int    `json:"size"`
	Apply bool   `json:"apply"`
	To    uint64 `json:"to"`
}

type lrBeh struct {
	Steps []lrStep `json:"steps"`
	Cache int      `json:"cache"`
	Max   int      `json:"max"`
}

func mkEntryOf(idx uint64, size int, rng *rand.Rand) (raftpb.Entry, string) {
	if rng.Intn(14) == 0 {
		// an encoded entry whose payload is not a command (cut in the middle of a field): it cannot be delivered
		cmd, _ := (&regattapb.Command{Table: []byte("tbl"), Type: regattapb.Command_PUT, Kv: &regattapb.KeyValue{Key: []byte(fmt.Sprintf("k%d", idx)), Value: make([]byte, 40)}}).MarshalVT()
		return raftpb.Entry{Index: idx, Term: 1, Type: raftpb.EncodedEntry, Cmd: append([]byte{0}, cmd[:len(cmd)-7]...)}, "bad"
	}
	switch rng.Intn(6) {
	case 0:
		return raftpb.Entry{Index: idx, Term: 1, Type: raftpb.ConfigChangeEntry, Cmd: make([]byte, size*lrUnit-150)}, "dummy"
	case 1:
		return raftpb.Entry{Index: idx, Term: 1, Type: raftpb.ApplicationEntry}, "dummy" // empty (no-op) entry: tiny
	default:
		val := make([]byte, size*lrUnit-150)
		cmd, _ := (&regattapb.Command{Table: []byte("tbl"), Type: regattapb.Command_PUT, Kv: &regattapb.KeyValue{Key: []byte(fmt.Sprintf("k%d", idx)), Value: val}}).MarshalVT()
		return raftpb.Entry{Index: idx, Term: 1, Type: raftpb.EncodedEntry, Cmd: append([]byte{0}, cmd...)}, "enc"
	}
}

func lrRun(tr *tracer.T, b lrBeh, rng *rand.Rand) {
	tr.Emit(map[string]any{"ev": "reset"})
	fl := &fakeLog{}
	q := fakeQuerier{fl}
	sc := logreader.NewShardCache(b.Cache)
	cached := &logreader.Cached{LogQuerier: q, ShardCache: sc}
	simple := &logreader.Simple{LogQuerier: q}
	useCached := rng.Intn(4) != 0
	var rd logreader.Interface = simple
	if useCached {
		rd = cached
	}
	s := gate.New(3)
	maxSize := uint64(b.Max * lrUnit)
	servers := make([]*regattaserver.LogServer, 3)
	for i := range servers {
		servers[i] = regattaserver.NewLogServer(fakeTables{fakeHost{fl}}, gatedReader{rd, s, i}, zap.NewNop(), maxSize)
	}
	directQueries := func() {
		fl.mu.Lock()
		a, m := fl.applied, fl.marker
		fl.mu.Unlock()
		lo := uint64(1)
		if m > 1 {
			lo = m // one compacted index as well
		}
		for f := lo; f <= a+1; f++ {
			for _, who := range []string{"simple", "cached"} {
				var r logreader.Interface = simple
				if who == "cached" {
					r = cached
				}
				ents, err := r.QueryRaftLog(context.Background(), 10001, dragonboat.LogRange{FirstIndex: f, LastIndex: a + 1}, maxSize)
				es := ""
				switch {
				case errors.Is(err, serrors.ErrLogAhead):
					es = "ahead"
				case errors.Is(err, serrors.ErrLogBehind):
					es = "behind"
				case err != nil:
					es = "error:" + err.Error()
				}
				idx := []uint64{}
				for _, e := range ents {
					idx = append(idx, e.Index)
				}
				tr.Emit(map[string]any{"ev": "query", "reader": who, "f": f, "l": a + 1, "err": es, "idx": idx})
			}
		}
	}
	for _, st := range b.Steps {
		switch st.T {
		case "append":
			fl.mu.Lock()
			idx := uint64(len(fl.entries) + 1)
			e, k := mkEntryOf(idx, st.Size, rng)
			fl.entries = append(fl.entries, e)
			if st.Apply {
				fl.applied = idx
			}
			fl.mu.Unlock()
			tr.Emit(map[string]any{"ev": "append", "kind": k, "apply": st.Apply, "size": st.Size})
		case "apply":
			fl.mu.Lock()
			if fl.applied < uint64(len(fl.entries)) {
				fl.applied++
			}
			fl.mu.Unlock()
			tr.Emit(map[string]any{"ev": "apply"})
		case "compact":
			fl.mu.Lock()
			fl.marker = st.To
			fl.mu.Unlock()
			sc.LogCompacted(10001) // what the engine's LogCompacted event handler does
			tr.Emit(map[string]any{"ev": "compact", "to": st.To})
		case "start":
			i := st.S - 1
			if s.Running(i) {
				continue
			}
			tr.Emit(map[string]any{"ev": "start", "s": st.S, "first": st.First})
			first := st.First
			if err := s.Start(i, func() {
				err := servers[i].Replicate(&regattapb.ReplicateRequest{Table: []byte("tbl"), LeaderIndex: first},
					&recStream{ctx: context.Background(), tr: tr, s: i + 1})
				es := ""
				if err != nil {
					es = err.Error()
				}
				tr.Emit(map[string]any{"ev": "end", "s": i + 1, "err": es})
			}); err != nil {
				die("%v", err)
			}
		case "step":
			i := st.S - 1
			if s.Running(i) && s.Parked(i) {
				if err := s.Step(i); err != nil {
					die("%v", err)
				}
			}
		}
	}
	for i := 0; i < 3; i++ {
		for guard := 0; s.Running(i) && guard < 100; guard++ {
			if err := s.Step(i); err != nil {
				die("%v", err)
			}
		}
	}
	directQueries()
}

func init() {
	subcmds["logreader"] = func(args []string) int {
		fs := flag.NewFlagSet("logreader", flag.ExitOnError)
		out := fs.String("out", "trace.ndjson", "trace")
		only := fs.Int("only", -1, "only behaviour k")
		in := fs.String("in", "", "TLC-generated behaviours")
		seed := fs.Int64("seed", 1, "seed")
		_ = fs.Parse(args)
		tr, err := tracer.New(*out)
		if err != nil {
			die("%v", err)
		}
		data, err := os.ReadFile(*in)
		if err != nil {
			die("%v", err)
		}
		for b, line := range bytes.Split(bytes.TrimSpace(data), []byte("\n")) {
			if *only >= 0 && b != *only {
				continue
			}
			var x lrBeh
			if err := json.Unmarshal(line, &x); err != nil {
				die("bad behaviour: %v", err)
			}
			rng := rand.New(rand.NewSource(*seed*7477 + int64(b)))
			// vary cache size and message limit around the TLC-chosen ones
			x.Cache = 1 + rng.Intn(4)
			x.Max = []int{1, 2, 3, 4, 100}[rng.Intn(5)]
			start := tr.Lines() + 1
			lrRun(tr, x, rng)
			fmt.Printf("BEHAVIOUR %d lines %d-%d class 0\n", b, start, tr.Lines())
		}
		if err := tr.Close(); err != nil {
			die("%v", err)
		}
		return 0
	}
}
