package main

import (
	"bufio"
	"encoding/base64"
	"encoding/json"
	"flag"
	"fmt"
	"os"
	"sort"

	"github.com/jamf/regatta/regattapb"

	m "verif/harness/internal/model"
	"verif/harness/internal/tracer"
)

// fsmtrace : traces of the REPOSITORY'S OWN TESTS. With the build tag verif and VERIF_FSM_TRACE set, every table state
// machine a test binary creates appends its Open / Update / RecoverFromSnapshot / Close events (raw command and result
// bytes, complete content at the state events) to a file. This sub-command only DECODES that file into the events of
// Trace_Table (it computes nothing about the table): one behaviour per state machine instance; "adopt" = the content the
// instance shows after Open / RecoverFromSnapshot, "update" = one Update call with per-entry results and both indices,
// "content" = what the instance holds before Close.

type rawPair struct {
	K string `json:"k"`
	V string `json:"v"`
}
type rawEnt struct {
	I    uint64 `json:"i"`
	Cmd  string `json:"cmd"`
	Val  uint64 `json:"val"`
	Data string `json:"data"`
}
type rawEv struct {
	Ev   string    `json:"ev"`
	Pid  int       `json:"pid"`
	Inst int       `json:"inst"`
	Seq  int       `json:"seq"`
	Idx  uint64    `json:"idx"`
	Lidx uint64    `json:"lidx"`
	Kvs  []rawPair `json:"kvs"`
	Ents []rawEnt  `json:"ents"`
}

func b64(s string) []byte {
	b, err := base64.StdEncoding.DecodeString(s)
	if err != nil {
		die("bad base64 in raw trace: %v", err)
	}
	if b == nil {
		b = []byte{}
	}
	return b
}

// leaves counts the elementary operations of a command
func leaves(c m.Cmd) int {
	n := 1 + len(c.KVs) + len(c.Ks) + len(c.Succ) + len(c.Fail)
	for _, s := range c.Cmds {
		n += leaves(s)
	}
	return n
}

func init() {
	subcmds["fsmtrace"] = func(args []string) int {
		fs := flag.NewFlagSet("fsmtrace", flag.ExitOnError)
		in := fs.String("in", "", "raw trace written by the repository's tests")
		out := fs.String("out", "trace.ndjson", "trace")
		only := fs.Int("only", -1, "only behaviour k")
		maxEnts := fs.Int("maxents", 400, "an instance is followed until it has applied this many entries")
		maxState := fs.Int("maxstate", 300, "a state of more pairs than this is not adopted (the instance is not followed from there)")
		_ = fs.Parse(args)
		f, err := os.Open(*in)
		if err != nil {
			die("%v", err)
		}
		defer f.Close()
		type key struct{ pid, inst int }
		byInst := map[key][]rawEv{}
		sc := bufio.NewScanner(f)
		sc.Buffer(make([]byte, 1<<20), 1<<30)
		for sc.Scan() {
			var e rawEv
			if err := json.Unmarshal(sc.Bytes(), &e); err != nil {
				continue // a line torn by a test binary that was killed
			}
			k := key{e.Pid, e.Inst}
			byInst[k] = append(byInst[k], e)
		}
		var keys []key
		for k := range byInst {
			keys = append(keys, k)
		}
		sort.Slice(keys, func(i, j int) bool {
			if keys[i].pid != keys[j].pid {
				return keys[i].pid < keys[j].pid
			}
			return keys[i].inst < keys[j].inst
		})
		tr, err := tracer.New(*out)
		if err != nil {
			die("%v", err)
		}
		kvsOf := func(ps []rawPair) []m.KV {
			kvs := []m.KV{}
			for _, p := range ps {
				kvs = append(kvs, m.KV{K: b64(p.K), V: b64(p.V)})
			}
			return kvs
		}
		skipped, unsupported := 0, 0
		for b, k := range keys {
			if *only >= 0 && b != *only {
				continue
			}
			evs := byInst[k]
			sort.Slice(evs, func(i, j int) bool { return evs[i].Seq < evs[j].Seq })
			start := tr.Lines() + 1
			tr.Emit(map[string]any{"ev": "reset"})
			known, applied, weight := false, 0, 0
		inst:
			for _, e := range evs {
				switch e.Ev {
				case "open", "recover":
					if len(e.Kvs) > *maxState {
						known = false
						skipped++
						continue
					}
					tr.Emit(map[string]any{"ev": "adopt", "rep": 1, "kvs": kvsOf(e.Kvs), "idx": e.Idx, "lidx": e.Lidx, "after": e.Ev})
					known = true
				case "close":
					if known && len(e.Kvs) <= *maxState {
						tr.Emit(map[string]any{"ev": "content", "rep": 1, "kvs": kvsOf(e.Kvs), "idx": e.Idx, "lidx": e.Lidx})
					}
				case "update":
					if !known {
						continue
					}
					applied += len(e.Ents)
					for _, x := range e.Ents {
						applied += len(x.Cmd) / 4096 // (a restore batch of a thousand pairs weighs like many entries)
					}
					if applied > *maxEnts {
						skipped++
						break inst // (a test that applies a hundred thousand entries: followed up to here)
					}
					ents := make([]map[string]any, 0, len(e.Ents))
					for _, x := range e.Ents {
						var pc regattapb.Command
						if err := pc.UnmarshalVT(b64(x.Cmd)); err != nil {
							unsupported++
							break inst
						}
						c, ok := m.CmdFromPB(&pc)
						if !ok {
							unsupported++
							break inst // a command shape the specification does not model: the instance is followed up to here
						}
						weight += leaves(c)
						if leaves(c) > 100 || weight > *maxEnts {
							skipped++
							break inst // (a restore batch of a thousand pairs, a table of thousands of pairs: too expensive to replay in TLC)
						}
						li := int64(-1)
						if pc.LeaderIndex != nil {
							li = int64(*pc.LeaderIndex)
						}
						res := regattapb.CommandResult{}
						data := b64(x.Data)
						if len(data) > 0 {
							if err := res.UnmarshalVT(data); err != nil {
								die("result of entry %d does not decode: %v", x.I, err)
							}
						}
						ents = append(ents, map[string]any{"i": x.I, "li": li, "c": c, "val": x.Val, "data": len(data) > 0, "rev": res.Revision, "rs": m.RespsFromPB(res.Responses), "anyindex": true})
					}
					tr.Emit(map[string]any{"ev": "update", "rep": 1, "ents": ents, "idx": e.Idx, "lidx": e.Lidx})
				}
			}
			fmt.Printf("BEHAVIOUR %d lines %d-%d class 0\n", b, start, tr.Lines())
		}
		fmt.Fprintf(os.Stderr, "instances: %d, cut at the entry limit: %d, cut at an unmodelled command: %d\n", len(keys), skipped, unsupported)
		if err := tr.Close(); err != nil {
			die("%v", err)
		}
		return 0
	}
}
