package main

import (
	"bufio"
	"bytes"
	"context"
	"encoding/json"
	"flag"
	"fmt"
	"math/rand"
	"os"
	"os/exec"
	"sort"
	"strings"
	"time"

	rcmd "github.com/jamf/regatta/cmd"
	"github.com/jamf/regatta/regattapb"
	"github.com/jamf/regatta/regattaserver"
	"github.com/spf13/viper"
	"go.uber.org/zap"
	"google.golang.org/grpc"
	"google.golang.org/grpc/credentials/insecure"
	"google.golang.org/grpc/status"

	"verif/harness/internal/eng"
	"verif/harness/internal/nh"
	"verif/harness/internal/tracer"
)

// api : C16 (and the server side of C17). The server runs in a CHILD process: a real one-node engine behind the
// API server built by the real wiring of the command package (createAPIServer: interceptor chain, auth, TLS from
// viper) with the services registered as cmd/leader.go or cmd/follower.go register them.

func apiServe(role, addr, tablesToken, maintToken string, tlsArgs map[string]string) int {
	viper.Set("api.address", addr)
	viper.Set("api.max-concurrent-streams", 1000)
	viper.Set("api.stream-workers", -1)
	for k, v := range tlsArgs {
		viper.Set(k, v)
	}
	cfg := eng.SingleConfig(role)
	e, err := eng.Single(cfg)
	if err != nil {
		die("engine: %v", err)
	}
	c := &eng.Cluster{}
	c.Engines = append(c.Engines, e)
	if err := c.CreateTable("known"); err != nil {
		die("%v", err)
	}
	ctx, cancel := context.WithTimeout(context.Background(), 10*time.Second)
	for i := 0; i < 3; i++ {
		if _, err := e.Put(ctx, &regattapb.PutRequest{Table: []byte("known"), Key: []byte(fmt.Sprintf("seed%d", i)), Value: []byte("v")}); err != nil {
			die("seed put: %v", err)
		}
	}
	cancel()
	srv, err := rcmd.VerifCreateAPIServer(zap.NewNop(), func(r grpc.ServiceRegistrar) {
		regattapb.RegisterKVServer(r, &regattaserver.KVServer{Storage: e})
		if role == "leader" {
			regattapb.RegisterTablesServer(r, &regattaserver.TablesServer{Tables: e, AuthFunc: rcmd.VerifAuthFunc(tablesToken)})
			regattapb.RegisterMaintenanceServer(r, &regattaserver.BackupServer{Tables: e, AuthFunc: rcmd.VerifAuthFunc(maintToken)})
		} else {
			regattapb.RegisterTablesServer(r, &regattaserver.ReadonlyTablesServer{TablesServer: regattaserver.TablesServer{Tables: e, AuthFunc: rcmd.VerifAuthFunc(tablesToken)}})
			regattapb.RegisterMaintenanceServer(r, &regattaserver.ResetServer{Tables: e, AuthFunc: rcmd.VerifAuthFunc(maintToken)})
		}
	})
	if err != nil {
		die("api server: %v", err)
	}
	fmt.Printf("READY %s\n", srv.Addr().String())
	if err := srv.Serve(); err != nil {
		die("serve: %v", err)
	}
	return 0
}

type apiChild struct {
	cmd  *exec.Cmd
	addr string
	out  *bytes.Buffer
}

func startAPIChild(role string, extra ...string) *apiChild {
	addr := "http://" + nh.FreeAddr()
	args := append([]string{"api", "--child", "serve", "--role", role, "--addr", addr}, extra...)
	c := exec.Command(os.Args[0], args...)
	stdout, _ := c.StdoutPipe()
	errb := &bytes.Buffer{}
	c.Stderr = errb
	if err := c.Start(); err != nil {
		die("child: %v", err)
	}
	sc := bufio.NewScanner(stdout)
	ready := make(chan string, 1)
	go func() {
		for sc.Scan() {
			if strings.HasPrefix(sc.Text(), "READY ") {
				ready <- strings.TrimPrefix(sc.Text(), "READY ")
			}
		}
	}()
	select {
	case a := <-ready:
		return &apiChild{cmd: c, addr: a, out: errb}
	case <-time.After(60 * time.Second):
		c.Process.Kill()
		die("child %s did not become ready: %s", role, errb.String())
	}
	return nil
}

func (c *apiChild) alive() bool {
	return c.cmd.ProcessState == nil && syscallAlive(c.cmd.Process.Pid)
}

func syscallAlive(pid int) bool {
	_, err := os.Stat(fmt.Sprintf("/proc/%d/stat", pid))
	if err != nil {
		return false
	}
	b, _ := os.ReadFile(fmt.Sprintf("/proc/%d/stat", pid))
	// state is the field after the closing parenthesis; Z = zombie
	if i := bytes.LastIndexByte(b, ')'); i >= 0 && i+2 < len(b) {
		return b[i+2] != 'Z'
	}
	return true
}

type apiReq struct {
	API    string `json:"api"`
	Table  string `json:"table"`
	Key    string `json:"key"`
	End    string `json:"end"`
	Limit  int64  `json:"limit"`
	KO     bool   `json:"ko"`
	CO     bool   `json:"co"`
	Filter string `json:"filter"`
	Val    string `json:"val"`
	Nested string `json:"nested"`
	Branch string `json:"branch"`
	Node   string `json:"node"`
}

func keyOf(class string, n int) []byte {
	switch class {
	case "empty":
		return nil
	case "max":
		return bytes.Repeat([]byte{'m'}, 1024)
	case "over":
		return bytes.Repeat([]byte{'o'}, 1025)
	}
	return []byte(fmt.Sprintf("key%d", n%5))
}
func valOf(class string) []byte {
	switch class {
	case "max":
		return bytes.Repeat([]byte{'v'}, 2*1024*1024)
	case "over":
		return bytes.Repeat([]byte{'v'}, 2*1024*1024+1)
	}
	return []byte("value")
}
func tableOf(class string) []byte {
	switch class {
	case "empty":
		return nil
	case "unknown":
		return []byte("no-such-table")
	}
	return []byte("known")
}

// unknownTable: names of tables that do not exist - plain ones and ones that LOOK like the existing table "known"
// through path elements (none of them is a table)
func unknownTable(n int) []byte {
	return []byte([]string{"no-such-table", "known/", "./known", "known/.", "x/../known", "/known", "known//", "KNOWN", "known\x00"}[n%9])
}

func contentOf(kvc regattapb.KVClient, tc regattapb.TablesClient) string {
	ctx, cancel := context.WithTimeout(context.Background(), 10*time.Second)
	defer cancel()
	var sb strings.Builder
	r, err := kvc.Range(ctx, &regattapb.RangeRequest{Table: []byte("known"), Key: []byte{0}, RangeEnd: []byte{0}}, grpc.MaxCallRecvMsgSize(64*1024*1024))
	if err != nil {
		return "ERR:" + err.Error()
	}
	for _, kv := range r.Kvs {
		fmt.Fprintf(&sb, "%x=%d:%x;", kv.Key, len(kv.Value), kv.Value[:min(len(kv.Value), 4)])
	}
	fmt.Fprintf(&sb, "more=%v|", r.More)
	l, err := tc.List(ctx, &regattapb.ListTablesRequest{})
	if err != nil {
		return sb.String() + "ERR:" + err.Error()
	}
	for _, t := range l.Tables {
		sb.WriteString(t.Name + ",")
	}
	return sb.String()
}

func apiValidate(tr *tracer.T, cases [][]byte, only int) {
	leader := startAPIChild("leader")
	follower := startAPIChild("follower")
	defer leader.cmd.Process.Kill()
	defer follower.cmd.Process.Kill()
	dial := func(c *apiChild) *grpc.ClientConn {
		conn, err := grpc.Dial(c.addr, grpc.WithTransportCredentials(insecure.NewCredentials()),
			grpc.WithDefaultCallOptions(grpc.MaxCallSendMsgSize(16*1024*1024), grpc.MaxCallRecvMsgSize(64*1024*1024)))
		if err != nil {
			die("dial: %v", err)
		}
		return conn
	}
	lconn, fconn := dial(leader), dial(follower)
	defer lconn.Close()
	defer fconn.Close()
	tr.Emit(map[string]any{"ev": "reset"})
	for n, line := range cases {
		if only >= 0 && n != only {
			continue
		}
		var r apiReq
		if err := json.Unmarshal(line, &r); err != nil {
			die("bad case: %v", err)
		}
		tableOf := func(class string) []byte {
			if class == "unknown" {
				return unknownTable(n)
			}
			return tableOf(class)
		}
		var raw map[string]any
		_ = json.Unmarshal(line, &raw)
		child, conn := leader, lconn
		if r.Node == "follower" {
			child, conn = follower, fconn
		}
		kvc, tc := regattapb.NewKVClient(conn), regattapb.NewTablesClient(conn)
		before := contentOf(kvc, tc)
		ctx, cancel := context.WithTimeout(context.Background(), 20*time.Second)
		var err error
		rr := &regattapb.RangeRequest{Table: tableOf(r.Table), Key: keyOf(r.Key, n), Limit: r.Limit, KeysOnly: r.KO, CountOnly: r.CO}
		if r.End == "ok" {
			rr.RangeEnd = []byte{0}
		}
		switch r.Filter {
		case "min_mod":
			rr.MinModRevision = 1
		case "max_mod":
			rr.MaxModRevision = 1
		case "min_create":
			rr.MinCreateRevision = 1
		case "max_create":
			rr.MaxCreateRevision = 1
		}
		switch r.API {
		case "Range":
			_, err = kvc.Range(ctx, rr)
		case "IterateRange":
			var st regattapb.KV_IterateRangeClient
			st, err = kvc.IterateRange(ctx, rr)
			if err == nil {
				for {
					if _, e := st.Recv(); e != nil {
						if e.Error() != "EOF" {
							err = e
						}
						break
					}
				}
			}
		case "Put":
			_, err = kvc.Put(ctx, &regattapb.PutRequest{Table: tableOf(r.Table), Key: keyOf(r.Key, n), Value: valOf(r.Val)})
		case "DeleteRange":
			d := &regattapb.DeleteRangeRequest{Table: tableOf(r.Table), Key: keyOf(r.Key, n)}
			if r.End == "ok" {
				d.RangeEnd = append(keyOf("ok", n), 0)
			}
			_, err = kvc.DeleteRange(ctx, d)
		case "Txn":
			var op *regattapb.RequestOp
			put := func(k, v []byte) *regattapb.RequestOp {
				return &regattapb.RequestOp{Request: &regattapb.RequestOp_RequestPut{RequestPut: &regattapb.RequestOp_Put{Key: k, Value: v}}}
			}
			del := func(k []byte) *regattapb.RequestOp {
				return &regattapb.RequestOp{Request: &regattapb.RequestOp_RequestDeleteRange{RequestDeleteRange: &regattapb.RequestOp_DeleteRange{Key: k}}}
			}
			switch r.Nested {
			case "put_ok":
				op = put(keyOf("ok", n), valOf("ok"))
			case "put_emptykey":
				op = put(nil, valOf("ok"))
			case "put_overkey":
				op = put(keyOf("over", n), valOf("ok"))
			case "put_overval":
				op = put(keyOf("ok", n), valOf("over"))
			case "del_emptykey":
				op = del(nil)
			case "del_overkey":
				op = del(keyOf("over", n))
			case "range_ok":
				op = &regattapb.RequestOp{Request: &regattapb.RequestOp_RequestRange{RequestRange: &regattapb.RequestOp_Range{Key: keyOf("ok", n)}}}
			case "emptyoneof", "emptyoneof_alone", "emptyoneof_after_range":
				op = &regattapb.RequestOp{}
			case "range_neglimit":
				op = &regattapb.RequestOp{Request: &regattapb.RequestOp_RequestRange{RequestRange: &regattapb.RequestOp_Range{Key: []byte{0}, RangeEnd: []byte{0}, Limit: -1}}}
			case "range_ko_co":
				op = &regattapb.RequestOp{Request: &regattapb.RequestOp_RequestRange{RequestRange: &regattapb.RequestOp_Range{Key: []byte{0}, RangeEnd: []byte{0}, KeysOnly: true, CountOnly: true}}}
			case "range_overkey":
				op = &regattapb.RequestOp{Request: &regattapb.RequestOp_RequestRange{RequestRange: &regattapb.RequestOp_Range{Key: keyOf("over", n)}}}
			}
			marker := put([]byte("txn-marker"), []byte("m")) // makes the transaction a write even if op is a read
			t := &regattapb.TxnRequest{Table: tableOf(r.Table)}
			// no predicate: the success branch is the executed one
			if r.Nested == "emptyoneof_alone" || r.Nested == "emptyoneof_after_range" {
				// a transaction that writes nothing, with an operation that names nothing, in the executed or the other branch
				ops := []*regattapb.RequestOp{op}
				if r.Nested == "emptyoneof_after_range" {
					ops = []*regattapb.RequestOp{{Request: &regattapb.RequestOp_RequestRange{RequestRange: &regattapb.RequestOp_Range{Key: keyOf("ok", n)}}}, op}
				}
				if r.Branch == "executed" {
					t.Success = ops
				} else {
					t.Failure = ops
				}
			} else if strings.HasPrefix(r.Nested, "range_") && n%2 == 0 {
				t.Success = []*regattapb.RequestOp{op} // a read-only transaction (served outside the log)
			} else if r.Branch == "executed" {
				t.Success = []*regattapb.RequestOp{marker, op}
			} else {
				t.Success = []*regattapb.RequestOp{marker}
				t.Failure = []*regattapb.RequestOp{op}
			}
			_, err = kvc.Txn(ctx, t)
		case "TablesCreate":
			name := map[string]string{"known": "known", "unknown": fmt.Sprintf("new-table-%d", n), "empty": ""}[r.Table]
			_, err = tc.Create(ctx, &regattapb.CreateTableRequest{Name: name})
		case "TablesDelete":
			name := map[string]string{"known": fmt.Sprintf("victim-%d", n), "unknown": string(unknownTable(n)), "empty": ""}[r.Table]
			if r.Table == "known" && r.Node == "leader" {
				if _, e := tc.Create(ctx, &regattapb.CreateTableRequest{Name: name}); e != nil {
					die("create victim: %v", e)
				}
				before = contentOf(kvc, tc)
			}
			_, err = tc.Delete(ctx, &regattapb.DeleteTableRequest{Name: name})
		case "TablesList":
			_, err = tc.List(ctx, &regattapb.ListTablesRequest{})
		}
		cancel()
		code := status.Code(err).String()
		alive := child.alive()
		after := ""
		if alive {
			after = contentOf(kvc, tc)
		}
		tr.Emit(map[string]any{"ev": "case", "n": n, "r": raw, "code": code, "changed": before != after, "alive": alive && !strings.HasPrefix(after, "ERR:")})
		if !alive {
			// the observation "a request terminated the serving process" has been recorded; nothing more can be sent
			fmt.Fprintf(os.Stderr, "server child died on case %d: %s\n", n, tailOf(child.out.String(), 2000))
			return
		}
	}
}

func tailOf(s string, n int) string {
	if len(s) > n {
		return s[len(s)-n:]
	}
	return s
}

// rawCodec sends the bytes it is given as the message body (content-subtype "proto": the server decodes them
// with its registered proto codec)
type rawCodec struct{}

func (rawCodec) Marshal(v any) ([]byte, error) { return *(v.(*[]byte)), nil }
func (rawCodec) Unmarshal(data []byte, v any) error {
	*(v.(*[]byte)) = append([]byte{}, data...)
	return nil
}
func (rawCodec) Name() string { return "proto" }

// apiFuzz : malformed wire input. Valid messages of every KV / Tables method are mutated (bit flips, truncation,
// random bytes, huge length prefixes) and sent as raw bodies.
func apiFuzz(tr *tracer.T, n int, seed int64) {
	leader := startAPIChild("leader")
	defer leader.cmd.Process.Kill()
	conn, err := grpc.Dial(leader.addr, grpc.WithTransportCredentials(insecure.NewCredentials()),
		grpc.WithDefaultCallOptions(grpc.MaxCallRecvMsgSize(64*1024*1024)))
	if err != nil {
		die("dial: %v", err)
	}
	defer conn.Close()
	kvc, tc := regattapb.NewKVClient(conn), regattapb.NewTablesClient(conn)
	rng := rand.New(rand.NewSource(seed))
	valid := map[string][]byte{}
	mk := func(name string, m interface{ MarshalVT() ([]byte, error) }) {
		b, _ := m.MarshalVT()
		valid[name] = b
	}
	mk("/regatta.v1.KV/Range", &regattapb.RangeRequest{Table: []byte("known"), Key: []byte("a"), RangeEnd: []byte{0}, Limit: 3})
	mk("/regatta.v1.KV/Put", &regattapb.PutRequest{Table: []byte("known"), Key: []byte("fuzz"), Value: []byte("v"), PrevKv: true})
	mk("/regatta.v1.KV/DeleteRange", &regattapb.DeleteRangeRequest{Table: []byte("known"), Key: []byte("fuzz"), RangeEnd: []byte("g"), Count: true})
	mk("/regatta.v1.KV/Txn", &regattapb.TxnRequest{Table: []byte("known"),
		Compare: []*regattapb.Compare{{Key: []byte("a"), Result: regattapb.Compare_GREATER, Target: regattapb.Compare_VALUE, TargetUnion: &regattapb.Compare_Value{Value: []byte("x")}, RangeEnd: []byte("z")}},
		Success: []*regattapb.RequestOp{{Request: &regattapb.RequestOp_RequestPut{RequestPut: &regattapb.RequestOp_Put{Key: []byte("fz"), Value: []byte("1")}}}},
		Failure: []*regattapb.RequestOp{{Request: &regattapb.RequestOp_RequestDeleteRange{RequestDeleteRange: &regattapb.RequestOp_DeleteRange{Key: []byte("fz")}}}, {Request: &regattapb.RequestOp_RequestRange{RequestRange: &regattapb.RequestOp_Range{Key: []byte("a"), RangeEnd: []byte{0}}}}}})
	mk("/regatta.v1.Tables/Create", &regattapb.CreateTableRequest{Name: "fuzz-table"})
	mk("/regatta.v1.Tables/Delete", &regattapb.DeleteTableRequest{Name: "fuzz-table"})
	var methods []string
	for k := range valid {
		methods = append(methods, k)
	}
	sort.Strings(methods)
	tr.Emit(map[string]any{"ev": "reset"})
	for i := 0; i < n; i++ {
		method := methods[rng.Intn(len(methods))]
		body := append([]byte{}, valid[method]...)
		switch rng.Intn(6) {
		case 0:
			for j := 0; j < 1+rng.Intn(4); j++ {
				body[rng.Intn(len(body))] ^= byte(1 << rng.Intn(8))
			}
		case 1:
			body = body[:rng.Intn(len(body))]
		case 2:
			body = make([]byte, rng.Intn(64))
			rng.Read(body)
		case 3: // a length-delimited field claiming a huge length
			body = append(body, 0x0a, 0xff, 0xff, 0xff, 0xff, 0x0f)
		case 4:
			pos := rng.Intn(len(body) + 1)
			ins := make([]byte, 1+rng.Intn(8))
			rng.Read(ins)
			body = append(body[:pos], append(ins, body[pos:]...)...)
		case 5: // deeply repeated field tags
			body = bytes.Repeat([]byte{0x12, 0x00}, 1+rng.Intn(2000))
		}
		before := contentOf(kvc, tc)
		ctx, cancel := context.WithTimeout(context.Background(), 10*time.Second)
		var reply []byte
		err := conn.Invoke(ctx, method, &body, &reply, grpc.ForceCodec(rawCodec{}))
		cancel()
		alive := leader.alive()
		after := ""
		if alive {
			after = contentOf(kvc, tc)
		}
		tr.Emit(map[string]any{"ev": "fuzz", "n": i, "method": method, "len": len(body), "code": status.Code(err).String(), "changed": before != after,
			"alive": alive && !strings.HasPrefix(after, "ERR:")})
		if !alive {
			fmt.Fprintf(os.Stderr, "server child died on fuzz case %d (%s, %x): %s\n", i, method, body, tailOf(leader.out.String(), 2000))
			return
		}
	}
}

func init() {
	subcmds["api"] = func(args []string) int {
		fs := flag.NewFlagSet("api", flag.ExitOnError)
		out := fs.String("out", "trace.ndjson", "trace")
		only := fs.Int("only", -1, "only case k")
		in := fs.String("in", "", "TLC-generated request classes")
		child := fs.String("child", "", "internal")
		role := fs.String("role", "leader", "child: leader | follower")
		addr := fs.String("addr", "", "child: api.address")
		tablesToken := fs.String("tables-token", "", "child")
		maintToken := fs.String("maintenance-token", "", "child")
		fuzz := fs.Int("fuzz", 300, "number of malformed wire messages")
		seed := fs.Int64("seed", 1, "seed")
		_ = fs.Parse(args)
		if *child == "serve" {
			return apiServe(*role, *addr, *tablesToken, *maintToken, nil)
		}
		tr, err := tracer.New(*out)
		if err != nil {
			die("%v", err)
		}
		data, err := os.ReadFile(*in)
		if err != nil {
			die("%v", err)
		}
		cases := bytes.Split(bytes.TrimSpace(data), []byte("\n"))
		if *only < 0 || *only == 0 {
			start := tr.Lines() + 1
			apiValidate(tr, cases, -1)
			fmt.Printf("BEHAVIOUR 0 lines %d-%d class %d\n", start, tr.Lines(), len(cases))
		}
		if *only < 0 || *only == 1 {
			start := tr.Lines() + 1
			apiFuzz(tr, *fuzz, *seed)
			fmt.Printf("BEHAVIOUR 1 lines %d-%d class %d\n", start, tr.Lines(), *fuzz)
		}
		if err := tr.Close(); err != nil {
			die("%v", err)
		}
		return 0
	}
}
