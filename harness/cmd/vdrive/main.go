package main

import (
	"fmt"
	"os"
	"runtime/pprof"
	"strconv"
	"time"

	"verif/harness/internal/tracer"
)

// watchdog: no trace event for VDRIVE_WATCHDOG seconds (default 300) => dump goroutines, exit 3
func watchdog() {
	limit := 300
	if v, err := strconv.Atoi(os.Getenv("VDRIVE_WATCHDOG")); err == nil && v > 0 {
		limit = v
	}
	for {
		time.Sleep(5 * time.Second)
		if time.Since(time.Unix(0, tracer.LastEmit.Load())) > time.Duration(limit)*time.Second {
			fmt.Fprintf(os.Stderr, "DRIVER-HUNG: no trace event for %d s; goroutines:\n", limit)
			_ = pprof.Lookup("goroutine").WriteTo(os.Stderr, 1)
			os.Exit(3)
		}
	}
}

type subcmd func(args []string) int

var subcmds = map[string]subcmd{}

func main() {
	if len(os.Args) < 2 {
		fmt.Fprintln(os.Stderr, "usage: vdrive <subcommand> [flags]")
		os.Exit(2)
	}
	go watchdog()
	f, ok := subcmds[os.Args[1]]
	if !ok {
		fmt.Fprintf(os.Stderr, "unknown subcommand %q\n", os.Args[1])
		os.Exit(2)
	}
	os.Exit(f(os.Args[2:]))
}
