package main

import (
	"context"
	"errors"
	"flag"
	"fmt"
	"math/rand"
	"sync"
	"time"

	serrors "github.com/jamf/regatta/storage/errors"
	"github.com/jamf/regatta/storage/kv"
	dbsm "github.com/lni/dragonboat/v4/statemachine"

	"verif/harness/internal/eng"
	"verif/harness/internal/tracer"
)

// cataloglag : C14 on a THREE-node cluster whose metadata replicas lag. Every metadata read of the table manager is a
// local (stale) read; here the metadata state machine of one node is parked in the verif hook while tables are created
// through another node, and then the lagging node is asked to create a table itself. The calls never overlap.

func catLagRun(tr *tracer.T, rng *rand.Rand) {
	tr.Emit(map[string]any{"ev": "reset"})
	var mu sync.Mutex
	cond := sync.NewCond(&mu)
	stalled := uint64(0) // replica whose metadata state machine is parked (0 = none)
	kv.VerifUpdateHook = func(shard, replica uint64, ents []dbsm.Entry) {
		mu.Lock()
		for stalled == replica {
			cond.Wait()
		}
		mu.Unlock()
	}
	setStall := func(r uint64) {
		mu.Lock()
		stalled = r
		cond.Broadcast()
		mu.Unlock()
	}
	defer func() { setStall(0); kv.VerifUpdateHook = nil }()
	c, err := eng.New(3, 0, nil)
	if err != nil {
		die("cluster: %v", err)
	}
	defer c.Close()
	existing := map[string]bool{}
	maxID := uint64(0)
	create := func(node int, name string, lagging bool) {
		t, err := c.Engines[node].CreateTable(name)
		res := "ok"
		switch {
		case err == nil:
		case errors.Is(err, serrors.ErrTableExists):
			res = "exists"
		case serrors.IsSafeToRetry(err) || errors.Is(err, context.DeadlineExceeded):
			// the in-process cluster turned the request away or did not answer in time (loaded machine): whether the
			// table exists now is not known - not an observation about the catalogue
			die("create %s through node %d: %v", name, node+1, err)
		default:
			res = "error: " + err.Error()
		}
		tr.Emit(map[string]any{"ev": "lagcreate", "node": node + 1, "name": name, "existed": existing[name], "lagging": lagging, "res": res, "id": t.ClusterID, "previd": maxID})
		if err == nil {
			existing[name] = true
			if t.ClusterID > maxID {
				maxID = t.ClusterID
			}
		}
	}
	lookup := func(node int, name string, lagging bool) {
		_, err := c.Engines[node].GetTable(name)
		found := err == nil
		if err != nil && !errors.Is(err, serrors.ErrTableNotFound) {
			// the record is visible but the shard is not started on this node yet: the lookup saw the table
			tabs, e2 := c.Engines[node].GetTables()
			if e2 != nil {
				die("gettables: %v", e2)
			}
			for _, t := range tabs {
				found = found || t.Name == name
			}
		}
		tr.Emit(map[string]any{"ev": "laglookup", "node": node + 1, "name": name, "exists": existing[name], "found": found, "lagging": lagging})
	}
	waitSeen := func(node int, name string) {
		for deadline := time.Now().Add(20 * time.Second); time.Now().Before(deadline); time.Sleep(2 * time.Millisecond) {
			tabs, err := c.Engines[node].GetTables()
			if err == nil {
				for _, t := range tabs {
					if t.Name == name {
						return
					}
				}
			}
		}
		die("node %d never saw table %s", node+1, name)
	}
	// DIRECTED (known finding StaleCatalogRead): a table deleted through node 1 while node 3's metadata replica is
	// behind - node 3 still finds it, and refuses to create the (free) name
	create(0, "gone", false)
	waitSeen(2, "gone")
	setStall(3)
	if err := c.Engines[0].DeleteTable("gone"); err != nil {
		die("delete: %v", err)
	}
	existing["gone"] = false
	lookup(2, "gone", true)
	{
		done := make(chan struct{})
		go func() { create(2, "gone", true); close(done) }()
		select {
		case <-done:
		case <-time.After(60 * time.Millisecond):
		}
		setStall(0)
		<-done
	}
	for round := 0; round < 6; round++ {
		lag := 1 + rng.Intn(2) // node index 1 or 2 lags; node 0 acknowledges
		if rng.Intn(4) != 0 {
			setStall(uint64(lag + 1))
		}
		// tables created through node 0 while the other node's metadata replica is behind
		for i, n := 0, 1+rng.Intn(2); i < n; i++ {
			create(0, fmt.Sprintf("a%d-%d", round, i), false)
		}
		// the lagging node is asked for a table - a new name, or one that was just created elsewhere
		if rng.Intn(2) == 0 {
			lookup(lag, fmt.Sprintf("a%d-0", round), true)
		}
		name := fmt.Sprintf("b%d", round)
		if rng.Intn(3) == 0 {
			name = fmt.Sprintf("a%d-0", round)
		}
		done := make(chan struct{})
		go func() { create(lag, name, true); close(done) }()
		select {
		case <-done:
		case <-time.After(time.Duration(30+rng.Intn(60)) * time.Millisecond):
		}
		setStall(0)
		<-done
	}
}

func init() {
	subcmds["cataloglag"] = func(args []string) int {
		fs := flag.NewFlagSet("cataloglag", flag.ExitOnError)
		out := fs.String("out", "trace.ndjson", "trace")
		only := fs.Int("only", -1, "only behaviour k")
		seed := fs.Int64("seed", 1, "seed")
		n := fs.Int("n", 3, "behaviours")
		_ = fs.Parse(args)
		tr, err := tracer.New(*out)
		if err != nil {
			die("%v", err)
		}
		for b := 0; b < *n; b++ {
			if *only >= 0 && b != *only {
				continue
			}
			rng := rand.New(rand.NewSource(*seed*104729 + int64(b)))
			start := tr.Lines() + 1
			catLagRun(tr, rng)
			fmt.Printf("BEHAVIOUR %d lines %d-%d class 0\n", b, start, tr.Lines())
		}
		if err := tr.Close(); err != nil {
			die("%v", err)
		}
		return 0
	}
}
