package main

import (
	"context"
	"encoding/json"
	"flag"
	"fmt"
	"math/rand"
	"net"
	"os"
	"path/filepath"
	"sort"
	"sync"
	"time"

	"github.com/jamf/regatta/regattapb"
	"github.com/jamf/regatta/regattaserver"
	"github.com/jamf/regatta/replication/backup"
	"github.com/jamf/regatta/storage"
	"google.golang.org/grpc"
	"google.golang.org/grpc/credentials/insecure"

	"verif/harness/internal/eng"
	m "verif/harness/internal/model"
	"verif/harness/internal/tracer"
)

// backup : C07, the backup-file path. A real engine behind the real Cluster and Maintenance (BackupServer) services
// on a loopback gRPC listener; the real backup.Backup client writes <table>.bak files and manifest.json, and restores
// them - into the same engine after its tables changed, into another engine, after a file or the manifest was
// damaged, and while a writer keeps writing during the backup.

type quietLog struct{}

func (quietLog) Info(args ...interface{})              {}
func (quietLog) Infof(msg string, args ...interface{}) {}

type bkNode struct {
	c    *eng.Cluster
	e    *storage.Engine
	srv  *grpc.Server
	conn *grpc.ClientConn
}

func newBkNode() *bkNode {
	c, err := eng.New(1, 0, nil)
	if err != nil {
		die("engine: %v", err)
	}
	e := c.Engines[0]
	lis, err := net.Listen("tcp", "127.0.0.1:0")
	if err != nil {
		die("listen: %v", err)
	}
	srv := grpc.NewServer(grpc.MaxRecvMsgSize(16*1024*1024), grpc.MaxSendMsgSize(16*1024*1024))
	regattapb.RegisterClusterServer(srv, &regattaserver.ClusterServer{Cluster: e, Config: func() map[string]any { return map[string]any{} }})
	regattapb.RegisterMaintenanceServer(srv, &regattaserver.BackupServer{Tables: e, AuthFunc: func(ctx context.Context) (context.Context, error) { return ctx, nil }})
	go srv.Serve(lis)
	conn, err := grpc.Dial(lis.Addr().String(), grpc.WithTransportCredentials(insecure.NewCredentials()),
		grpc.WithDefaultCallOptions(grpc.MaxCallRecvMsgSize(16*1024*1024), grpc.MaxCallSendMsgSize(16*1024*1024)))
	if err != nil {
		die("dial: %v", err)
	}
	return &bkNode{c: c, e: e, srv: srv, conn: conn}
}

func (n *bkNode) close() {
	n.conn.Close()
	n.srv.Stop()
	n.c.Close()
}

func (n *bkNode) put(tbl string, k, v []byte) uint64 {
	ctx, cancel := context.WithTimeout(context.Background(), 10*time.Second)
	defer cancel()
	r, err := n.e.Put(ctx, &regattapb.PutRequest{Table: []byte(tbl), Key: k, Value: v})
	if err != nil {
		die("put %s: %v", tbl, err)
	}
	return r.Header.Revision
}

func (n *bkNode) del(tbl string, k []byte) uint64 {
	ctx, cancel := context.WithTimeout(context.Background(), 10*time.Second)
	defer cancel()
	r, err := n.e.Delete(ctx, &regattapb.DeleteRangeRequest{Table: []byte(tbl), Key: k})
	if err != nil {
		die("delete %s: %v", tbl, err)
	}
	return r.Header.Revision
}

// content of a table, read through Raft from the empty key; ok=false when the table does not exist
func (n *bkNode) content(tbl string) ([]m.KV, uint64, bool) {
	deadline := time.Now().Add(20 * time.Second)
	for {
		t, err := n.e.GetTable(tbl)
		if err == nil {
			ctx, cancel := context.WithTimeout(context.Background(), 10*time.Second)
			it, err2 := t.Iterator(ctx, &regattapb.RangeRequest{Table: []byte(tbl), Key: []byte{}, RangeEnd: []byte{0}, Linearizable: true})
			if err2 == nil {
				kvs := []m.KV{}
				it(func(r *regattapb.ResponseOp_Range) bool {
					for _, p := range r.Kvs {
						kvs = append(kvs, m.KV{K: append([]byte{}, p.Key...), V: append([]byte{}, p.Value...)})
					}
					return true
				})
				li, err3 := t.LeaderIndex(ctx, true)
				cancel()
				if err3 == nil {
					return kvs, li.Index, true
				}
				err = err3
			} else {
				cancel()
				err = err2
			}
		}
		if tabs, e2 := n.e.GetTables(); e2 == nil {
			found := false
			for _, x := range tabs {
				found = found || x.Name == tbl
			}
			if !found {
				return nil, 0, false
			}
		}
		if time.Now().After(deadline) {
			die("read %s: %v", tbl, err)
		}
		time.Sleep(5 * time.Millisecond)
	}
}

func bkKey(rng *rand.Rand, i int) []byte {
	switch rng.Intn(7) {
	case 6:
		// the very end of the keyspace: 1019..1024 bytes of 0xFF (the largest keys the API accepts)
		k := make([]byte, 1019+rng.Intn(6))
		for j := range k {
			k[j] = 0xff
		}
		return k
	case 0:
		return []byte{byte(i), 0}
	case 1:
		return []byte{0xff, byte(i), 0xff}
	case 2:
		k := make([]byte, 1000+rng.Intn(25))
		for j := range k {
			k[j] = byte('a' + (i+j)%7)
		}
		k[0] = byte(i)
		return k
	default:
		return []byte(fmt.Sprintf("key-%04d", i))
	}
}

func bkVal(rng *rand.Rand, huge bool) []byte {
	n := 0
	switch x := rng.Intn(20); {
	case x < 2:
		n = 0
	case x < 12:
		n = 1 + rng.Intn(40)
	case x < 17:
		n = 500 + rng.Intn(4000)
	case x < 19:
		n = 100*1024 + rng.Intn(300*1024)
	default:
		n = 1024 * 1024
		if huge {
			n = 2 * 1024 * 1024 // the maximum value size
		}
	}
	v := make([]byte, n)
	for j := range v {
		v[j] = byte(rng.Intn(256))
	}
	return v
}

func backupRun(tr *tracer.T, rng *rand.Rand, variant int) {
	tr.Emit(map[string]any{"ev": "reset"})
	src := newBkNode()
	defer src.close()
	names := []string{"ta", "tb", "tc"}[:1+rng.Intn(3)]
	if variant == 3 {
		names = []string{"ta", "tb"}
	}
	type wr struct {
		rev  uint64
		k, v []byte
		del  bool
	}
	hist := map[string][]wr{}
	for ti, tbl := range names {
		if err := src.c.CreateTable(tbl); err != nil {
			die("create %s: %v", tbl, err)
		}
		n := []int{0, 1, 7, 40, 200}[rng.Intn(5)]
		if ti == 1 && rng.Intn(2) == 0 {
			n = 0 // an EMPTY table
		}
		for i := 0; i < n; i++ {
			k, v := bkKey(rng, i), bkVal(rng, i%50 == 3)
			if n > 60 && len(v) > 8192 {
				v = v[:8192]
			}
			hist[tbl] = append(hist[tbl], wr{src.put(tbl, k, v), k, v, false})
			if rng.Intn(10) == 0 {
				hist[tbl] = append(hist[tbl], wr{src.del(tbl, k), k, nil, true})
			}
		}
	}
	dir, err := os.MkdirTemp("", "vdrive-backup-")
	if err != nil {
		die("tempdir: %v", err)
	}
	defer os.RemoveAll(dir)
	// ---- backup (variant 3: while a writer keeps writing into "ta")
	var wmu sync.Mutex
	stop := make(chan struct{})
	var wg sync.WaitGroup
	if variant == 3 {
		wg.Add(1)
		go func() {
			defer wg.Done()
			lr := rand.New(rand.NewSource(rng.Int63()))
			for i := 0; i < 400; i++ {
				select {
				case <-stop:
					return
				default:
				}
				k := []byte(fmt.Sprintf("w%02d", lr.Intn(12)))
				v := []byte(fmt.Sprintf("%d", i))
				var w wr
				if lr.Intn(5) == 0 {
					w = wr{src.del("ta", k), k, nil, true}
				} else {
					w = wr{src.put("ta", k, v), k, v, false}
				}
				wmu.Lock()
				hist["ta"] = append(hist["ta"], w)
				wmu.Unlock()
			}
		}()
		time.Sleep(time.Duration(2+rng.Intn(10)) * time.Millisecond)
	}
	before := map[string][]m.KV{}
	for _, tbl := range names {
		if variant == 3 && tbl == "ta" {
			continue // being written
		}
		before[tbl], _, _ = src.content(tbl)
	}
	man, err := (&backup.Backup{Conn: src.conn, Dir: dir, Log: quietLog{}}).Backup()
	if variant == 3 {
		time.Sleep(2 * time.Millisecond)
		close(stop)
		wg.Wait()
	}
	if err != nil {
		die("backup: %v", err)
	}
	var listed []string
	for _, t := range man.Tables {
		listed = append(listed, t.Name)
	}
	sort.Strings(listed)
	tr.Emit(map[string]any{"ev": "backupdone", "tables": names, "listed": listed})

	// ---- where it is restored
	dst := src
	if variant == 1 {
		dst = newBkNode()
		defer dst.close()
		if rng.Intn(2) == 0 {
			// the other cluster has a table of that name with other content
			if err := dst.c.CreateTable("ta"); err != nil {
				die("create: %v", err)
			}
			for i := 0; i < 5; i++ {
				dst.put("ta", []byte(fmt.Sprintf("other-%d", i)), []byte("x"))
			}
		}
	} else {
		// the tables change after the backup (nothing of this may survive the restore)
		for _, tbl := range names {
			for i := 0; i < 6; i++ {
				src.put(tbl, []byte(fmt.Sprintf("late-%d", i)), []byte("late"))
			}
			for i, w := range hist[tbl] {
				if i%3 == 0 && !w.del {
					src.del(tbl, w.k)
				} else if i%3 == 1 && !w.del {
					src.put(tbl, w.k, []byte("changed"))
				}
			}
		}
		if len(names) > 1 && rng.Intn(2) == 0 && variant != 2 {
			if err := src.e.DeleteTable(names[len(names)-1]); err != nil {
				die("delete table: %v", err)
			}
		}
	}
	// ---- damage (variant 2)
	damaged, how := "", ""
	preDamage := []m.KV{}
	preExists := false
	if variant == 2 {
		victim := man.Tables[rng.Intn(len(man.Tables))]
		damaged = victim.Name
		preDamage, _, preExists = dst.content(damaged)
		path := filepath.Join(dir, victim.FileName)
		data, err := os.ReadFile(path)
		if err != nil {
			die("read bak: %v", err)
		}
		switch x := rng.Intn(5); {
		case x == 0 && len(data) > 0:
			how = "byte flipped"
			data[rng.Intn(len(data))] ^= 0x40
		case x == 1 && len(data) > 0:
			how = "truncated"
			data = data[:rng.Intn(len(data))]
		case x == 2:
			how = "bytes appended"
			data = append(data, 0)
		case x == 3 && len(man.Tables) > 1:
			how = "file of another table"
			other := man.Tables[(rng.Intn(len(man.Tables)-1)+1+indexOf(man.Tables, victim.Name))%len(man.Tables)]
			od, _ := os.ReadFile(filepath.Join(dir, other.FileName))
			if string(od) == string(data) {
				how = "bytes appended"
				data = append(data, 0)
			} else {
				data = od
			}
		default:
			// the manifest names another checksum
			how = "manifest checksum changed"
			mf := filepath.Join(dir, "manifest.json")
			var mm backup.Manifest
			b, _ := os.ReadFile(mf)
			if err := json.Unmarshal(b, &mm); err != nil {
				die("manifest: %v", err)
			}
			for i := range mm.Tables {
				if mm.Tables[i].Name == damaged {
					c := []byte(mm.Tables[i].MD5)
					if c[0] == '0' {
						c[0] = '1'
					} else {
						c[0] = '0'
					}
					mm.Tables[i].MD5 = string(c)
				}
			}
			b, _ = json.Marshal(mm)
			if err := os.WriteFile(mf, b, 0o644); err != nil {
				die("write manifest: %v", err)
			}
		}
		if how != "manifest checksum changed" {
			if err := os.WriteFile(path, data, 0o644); err != nil {
				die("write bak: %v", err)
			}
		}
	}
	rerr := (&backup.Backup{Conn: dst.conn, Dir: dir, Log: quietLog{}}).Restore()
	es := ""
	if rerr != nil {
		es = rerr.Error()
	}
	if variant == 2 {
		// the damaged file is refused: an error, and the table it names is as it was
		after, _, exists := dst.content(damaged)
		same := exists == preExists && len(after) == len(preDamage)
		if same {
			for i := range after {
				same = same && string(after[i].K) == string(preDamage[i].K) && string(after[i].V) == string(preDamage[i].V)
			}
		}
		tr.Emit(map[string]any{"ev": "backupcheck", "corrupted": true, "refused": rerr != nil && same, "how": how, "err": es, "untouched": same})
		// the tables restored before the damaged one was reached are exactly their backup
		for _, t := range man.Tables {
			if t.Name >= damaged {
				break
			}
			tr.Emit(map[string]any{"ev": "stream", "pairs": before[t.Name], "li": 0, "table": t.Name})
			kvs, li, _ := dst.content(t.Name)
			if kvs == nil {
				kvs = []m.KV{}
			}
			tr.Emit(map[string]any{"ev": "restored", "err": "", "kvs": kvs, "lidx": li, "table": t.Name})
		}
		return
	}
	tr.Emit(map[string]any{"ev": "backupcheck", "corrupted": false, "refused": rerr != nil, "how": "", "err": es, "untouched": false})
	if rerr != nil {
		return
	}
	for _, tbl := range names {
		kvs, li, exists := dst.content(tbl)
		if kvs == nil {
			kvs = []m.KV{}
		}
		if variant == 3 && tbl == "ta" {
			// written while the backup ran: the file is the content at ONE point of the write history
			for _, w := range hist[tbl] {
				tr.Emit(map[string]any{"ev": "write", "rev": w.rev, "k": m.K(w.k), "v": m.V(w.v), "del": w.del})
			}
			tr.Emit(map[string]any{"ev": "restoredpit", "exists": exists, "kvs": kvs, "lidx": li, "table": tbl})
			continue
		}
		tr.Emit(map[string]any{"ev": "stream", "pairs": before[tbl], "li": 0, "table": tbl})
		e2 := ""
		if !exists {
			e2 = "table missing after restore"
		}
		tr.Emit(map[string]any{"ev": "restored", "err": e2, "kvs": kvs, "lidx": li, "table": tbl})
	}
}

func indexOf(ts []backup.ManifestTable, name string) int {
	for i, t := range ts {
		if t.Name == name {
			return i
		}
	}
	return 0
}

func init() {
	subcmds["backup"] = func(args []string) int {
		fs := flag.NewFlagSet("backup", flag.ExitOnError)
		out := fs.String("out", "trace.ndjson", "trace")
		only := fs.Int("only", -1, "only behaviour k")
		seed := fs.Int64("seed", 1, "seed")
		n := fs.Int("n", 8, "behaviours")
		_ = fs.Parse(args)
		tr, err := tracer.New(*out)
		if err != nil {
			die("%v", err)
		}
		for b := 0; b < *n; b++ {
			if *only >= 0 && b != *only {
				continue
			}
			rng := rand.New(rand.NewSource(*seed*7919 + int64(b)))
			start := tr.Lines() + 1
			variant := b % 4
			backupRun(tr, rng, variant)
			fmt.Printf("BEHAVIOUR %d lines %d-%d class %d\n", b, start, tr.Lines(), variant)
		}
		if err := tr.Close(); err != nil {
			die("%v", err)
		}
		return 0
	}
}
