package main

import (
	"bytes"
	"context"
	"crypto/ecdsa"
	"crypto/elliptic"
	crand "crypto/rand"
	"crypto/tls"
	"crypto/x509"
	"crypto/x509/pkix"
	"encoding/json"
	"encoding/pem"
	"flag"
	"fmt"
	"google.golang.org/grpc/codes"
	"io"
	"math/big"
	"net"
	"os"
	"path/filepath"
	"strings"
	"sync"
	"sync/atomic"
	"time"

	"github.com/jamf/regatta/regattapb"
	"github.com/jamf/regatta/security"
	"google.golang.org/grpc"
	"google.golang.org/grpc/credentials/insecure"
	"google.golang.org/grpc/metadata"
	"google.golang.org/grpc/status"

	"verif/harness/internal/tracer"
)

// access : C17. Token cases against servers built by the real wiring (child processes); certificate cases as real
// TLS handshakes against the tls.Config produced by security.TLSInfo.ServerConfig().

const (
	tablesTok = "tables-Secret-Token-0123456789-abcdefghijklmnopQRSTUVWXYZ"
	maintTok  = "maint-Secret-Token-9876543210-zyxwvutsrqponmlkJIHGFEDCBA"
	allowed   = "client.allowed"
)

func swapCase(s string) string {
	b := []byte(s)
	for i, c := range b {
		switch {
		case c >= 'a' && c <= 'z':
			b[i] = c - 32
		case c >= 'A' && c <= 'Z':
			b[i] = c + 32
		}
	}
	return string(b)
}

func accessTokens(tr *tracer.T, cases []map[string]any) {
	children := map[string]*apiChild{
		"leader/T":      startAPIChild("leader", "--tables-token", tablesTok, "--maintenance-token", maintTok),
		"leader/none":   startAPIChild("leader"),
		"follower/T":    startAPIChild("follower", "--tables-token", tablesTok, "--maintenance-token", maintTok),
		"follower/none": startAPIChild("follower"),
	}
	conns := map[string]*grpc.ClientConn{}
	for k, c := range children {
		defer c.cmd.Process.Kill()
		conn, err := grpc.Dial(c.addr, grpc.WithTransportCredentials(insecure.NewCredentials()), grpc.WithDefaultCallOptions(grpc.MaxCallRecvMsgSize(64*1024*1024)))
		if err != nil {
			die("dial: %v", err)
		}
		defer conn.Close()
		conns[k] = conn
	}
	for n, x := range cases {
		svc, m, conf, pres, role := x["svc"].(string), x["m"].(string), x["conf"].(string), x["pres"].(string), x["role"].(string)
		key := role + "/" + conf
		if svc == "KV" {
			key = role + "/T" // the KV service has no token even when the others have one: it must stay open
		}
		conn := conns[key]
		tok, other := tablesTok, maintTok
		if svc == "Maintenance" {
			tok, other = maintTok, tablesTok
		}
		ctx, cancel := context.WithTimeout(context.Background(), 20*time.Second)
		auth := ""
		switch pres {
		case "empty":
			auth = "Bearer "
		case "right":
			auth = "Bearer " + tok
		case "prefix":
			auth = "Bearer " + tok[:len(tok)-1]
		case "suffix":
			auth = "Bearer " + tok + "x"
		case "case":
			auth = "Bearer " + swapCase(tok)
		case "other":
			auth = "Bearer nope"
		case "basic_right":
			auth = "Basic " + tok
		case "lower_scheme_right":
			auth = "bearer " + tok
		case "right_other_service":
			auth = "Bearer " + other
		}
		if pres != "none" {
			ctx = metadata.AppendToOutgoingContext(ctx, "authorization", auth)
		}
		kvc, tc, mc := regattapb.NewKVClient(conn), regattapb.NewTablesClient(conn), regattapb.NewMaintenanceClient(conn)
		plainKV, plainTC := regattapb.NewKVClient(conns[role+"/none"]), regattapb.NewTablesClient(conns[role+"/none"])
		_ = plainKV
		_ = plainTC
		// state is observed through the token-less KV service and, for the table list, with the right token
		listCtx := metadata.AppendToOutgoingContext(context.Background(), "authorization", "Bearer "+tablesTok)
		content := func() string {
			c2, cc := context.WithTimeout(listCtx, 10*time.Second)
			defer cc()
			var sb strings.Builder
			r, err := kvc.Range(c2, &regattapb.RangeRequest{Table: []byte("known"), Key: []byte{0}, RangeEnd: []byte{0}})
			if err != nil {
				return "ERR:" + err.Error()
			}
			for _, kv := range r.Kvs {
				fmt.Fprintf(&sb, "%x=%x;", kv.Key, kv.Value)
			}
			l, err := tc.List(c2, &regattapb.ListTablesRequest{})
			if err != nil {
				return sb.String() + "ERR:" + err.Error()
			}
			for _, t := range l.Tables {
				sb.WriteString(t.Name + ",")
			}
			return sb.String()
		}
		before := content()
		var err error
		switch svc + "." + m {
		case "KV.Range":
			_, err = kvc.Range(ctx, &regattapb.RangeRequest{Table: []byte("known"), Key: []byte("seed0")})
		case "KV.IterateRange":
			var st regattapb.KV_IterateRangeClient
			st, err = kvc.IterateRange(ctx, &regattapb.RangeRequest{Table: []byte("known"), Key: []byte{0}, RangeEnd: []byte{0}})
			if err == nil {
				for {
					if _, e := st.Recv(); e != nil {
						if e != io.EOF {
							err = e
						}
						break
					}
				}
			}
		case "Tables.Create":
			_, err = tc.Create(ctx, &regattapb.CreateTableRequest{Name: fmt.Sprintf("t-%d", n)})
		case "Tables.Delete":
			_, err = tc.Delete(ctx, &regattapb.DeleteTableRequest{Name: "known-not"})
		case "Tables.List":
			_, err = tc.List(ctx, &regattapb.ListTablesRequest{})
		case "Maintenance.Backup":
			var st regattapb.Maintenance_BackupClient
			st, err = mc.Backup(ctx, &regattapb.BackupRequest{Table: []byte("known")})
			if err == nil {
				for {
					if _, e := st.Recv(); e != nil {
						if e != io.EOF {
							err = e
						}
						break
					}
				}
			}
		case "Maintenance.Restore":
			var st regattapb.Maintenance_RestoreClient
			st, err = mc.Restore(ctx)
			if err == nil {
				_ = st.Send(&regattapb.RestoreMessage{Data: &regattapb.RestoreMessage_Info{Info: &regattapb.RestoreInfo{Table: []byte("known")}}})
				// an (empty) stream: a restore that is let through replaces the table with nothing
				_, err = st.CloseAndRecv()
			}
		case "Maintenance.Reset":
			_, err = mc.Reset(ctx, &regattapb.ResetRequest{Table: []byte("known")})
		}
		cancel()
		after := content()
		tr.Emit(map[string]any{"ev": "token", "n": n, "x": x, "code": status.Code(err).String(), "changed": before != after})
	}
	// CONCURRENT calls: legitimate callers and callers with wrong tokens OF THE SAME LENGTH hit the protected services
	// at the same time; not one wrong-token call may get through, not one right-token call may be refused
	{
		conn := conns["leader/T"]
		tc, mc := regattapb.NewTablesClient(conn), regattapb.NewMaintenanceClient(conn)
		var rightCalls, rightRefused, wrongCalls, accepted atomic.Int64
		stop := time.Now().Add(1500 * time.Millisecond)
		var wg sync.WaitGroup
		call := func(tok string, i int) error {
			ctx, cancel := context.WithTimeout(metadata.AppendToOutgoingContext(context.Background(), "authorization", "Bearer "+tok), 10*time.Second)
			defer cancel()
			if i%3 == 2 {
				_, err := mc.Reset(ctx, &regattapb.ResetRequest{Table: []byte("no-such-table-for-reset")})
				if status.Code(err) != codes.Unauthenticated {
					return nil // got past the token check (whatever Reset then says about the table)
				}
				return err
			}
			_, err := tc.List(ctx, &regattapb.ListTablesRequest{})
			return err
		}
		for g := 0; g < 8; g++ {
			wg.Add(2)
			go func(g int) {
				defer wg.Done()
				for i := 0; time.Now().Before(stop); i++ {
					tok := tablesTok
					if i%3 == 2 {
						tok = maintTok
					}
					rightCalls.Add(1)
					if err := call(tok, i); status.Code(err) == codes.Unauthenticated {
						rightRefused.Add(1)
					}
				}
			}(g)
			go func(g int) {
				defer wg.Done()
				for i := 0; time.Now().Before(stop); i++ {
					tok := tablesTok
					if i%3 == 2 {
						tok = maintTok
					}
					wrong := []string{swapCase(tok), tok[:len(tok)-1] + "#", "#" + tok[1:], strings.Repeat("x", len(tok))}[(i+g)%4]
					wrongCalls.Add(1)
					if err := call(wrong, i); status.Code(err) != codes.Unauthenticated {
						accepted.Add(1)
					}
				}
			}(g)
		}
		wg.Wait()
		tr.Emit(map[string]any{"ev": "tokenrace", "right_calls": rightCalls.Load(), "right_refused": rightRefused.Load(), "wrong_calls": wrongCalls.Load(), "accepted": accepted.Load()})
	}
}

// ---------------------------------------------------------------- certificates
type certKey struct {
	cert *x509.Certificate
	der  []byte
	key  *ecdsa.PrivateKey
}

var serial int64 = 1

func makeCert(cn string, sans []string, isCA bool, parent *certKey) *certKey {
	key, _ := ecdsa.GenerateKey(elliptic.P256(), crand.Reader)
	serial++
	tpl := &x509.Certificate{SerialNumber: big.NewInt(serial), Subject: pkix.Name{CommonName: cn}, NotBefore: time.Now().Add(-time.Hour), NotAfter: time.Now().Add(24 * time.Hour),
		KeyUsage: x509.KeyUsageDigitalSignature, ExtKeyUsage: []x509.ExtKeyUsage{x509.ExtKeyUsageClientAuth, x509.ExtKeyUsageServerAuth}, DNSNames: sans, BasicConstraintsValid: true}
	if isCA {
		tpl.IsCA = true
		tpl.KeyUsage |= x509.KeyUsageCertSign
	}
	signer, signerKey := tpl, key
	if parent != nil {
		signer, signerKey = parent.cert, parent.key
	}
	der, err := x509.CreateCertificate(crand.Reader, tpl, signer, &key.PublicKey, signerKey)
	if err != nil {
		die("create cert: %v", err)
	}
	c, _ := x509.ParseCertificate(der)
	return &certKey{cert: c, der: der, key: key}
}

func writePEM(dir, name string, c *certKey) (string, string) {
	cf, kf := filepath.Join(dir, name+".crt"), filepath.Join(dir, name+".key")
	_ = os.WriteFile(cf, pem.EncodeToMemory(&pem.Block{Type: "CERTIFICATE", Bytes: c.der}), 0o600)
	kb, _ := x509.MarshalECPrivateKey(c.key)
	_ = os.WriteFile(kf, pem.EncodeToMemory(&pem.Block{Type: "EC PRIVATE KEY", Bytes: kb}), 0o600)
	return cf, kf
}

func accessTLS(tr *tracer.T, cases []map[string]any) {
	dir, err := os.MkdirTemp("", "verif-certs-")
	if err != nil {
		die("%v", err)
	}
	defer os.RemoveAll(dir)
	ca := makeCert("verif trusted CA", nil, true, nil)
	otherCA := makeCert("verif other CA", nil, true, nil)
	inter := makeCert(allowed, []string{allowed}, true, ca) // an intermediate whose OWN name is the allowed one
	server := makeCert("server", []string{"localhost"}, false, ca)
	caFile, _ := writePEM(dir, "ca", ca)
	srvCert, srvKey := writePEM(dir, "server", server)
	clients := map[string][]*certKey{
		"selfsigned_rightcn":  {makeCert(allowed, nil, false, nil)},
		"otherca_rightcn":     {makeCert(allowed, nil, false, otherCA)},
		"ca_rightcn":          {makeCert(allowed, nil, false, ca)},
		"ca_wrongcn":          {makeCert("someone.else", nil, false, ca)},
		"ca_emptycn":          {makeCert("", nil, false, ca)},
		"ca_cn_prefix":        {makeCert(allowed[:len(allowed)-1], nil, false, ca)},
		"ca_cn_case":          {makeCert(swapCase(allowed), nil, false, ca)},
		"ca_rightsan":         {makeCert("someone.else", []string{allowed}, false, ca)},
		"ca_wrongsan":         {makeCert("someone.else", []string{"other.example"}, false, ca)},
		"ca_rightcn_wrongsan": {makeCert(allowed, []string{"other.example"}, false, ca)},
		"ca_wrongcn_rightsan": {makeCert("wrong.cn", []string{allowed}, false, ca)},
	}
	clients["ca_wrong_via_intermediate_named_right"] = []*certKey{makeCert("someone.else", []string{"other.example"}, false, inter), inter}
	pool := x509.NewCertPool()
	pool.AddCert(ca.cert)
	for n, x := range cases {
		srv := x["srv"].(map[string]any)
		ti := security.TLSInfo{CertFile: srvCert, KeyFile: srvKey, ClientCertAuth: srv["cca"].(bool)}
		if srv["ca"].(bool) {
			ti.TrustedCAFile = caFile
		}
		switch srv["allow"].(string) {
		case "cn":
			ti.AllowedCN = allowed
		case "host":
			ti.AllowedHostname = allowed
		}
		scfg, err := ti.ServerConfig()
		if err != nil {
			die("server config: %v", err)
		}
		ccfg := &tls.Config{RootCAs: pool, ServerName: "localhost", MinVersion: tls.VersionTLS12}
		if n%2 == 1 {
			ccfg.MaxVersion = tls.VersionTLS12
		}
		if chain, ok := clients[x["cert"].(string)]; ok {
			tc := tls.Certificate{PrivateKey: chain[0].key}
			for _, c := range chain {
				tc.Certificate = append(tc.Certificate, c.der)
			}
			ccfg.GetClientCertificate = func(*tls.CertificateRequestInfo) (*tls.Certificate, error) { return &tc, nil }
		}
		// a real loopback TCP connection (net.Pipe is unbuffered: a rejected handshake would only end at the deadline)
		ln, err := net.Listen("tcp", "127.0.0.1:0")
		if err != nil {
			die("listen: %v", err)
		}
		acc := make(chan net.Conn, 1)
		go func() {
			c, _ := ln.Accept()
			acc <- c
		}()
		b, err := net.Dial("tcp", ln.Addr().String())
		if err != nil {
			die("dial: %v", err)
		}
		a := <-acc
		ln.Close()
		done := make(chan error, 1)
		go func() {
			s := tls.Server(a, scfg)
			_ = s.SetDeadline(time.Now().Add(5 * time.Second))
			err := s.Handshake()
			if err == nil {
				// complete a round trip so that a TLS 1.3 client learns about a rejected certificate
				buf := make([]byte, 1)
				_, err = s.Read(buf)
			}
			done <- err
			s.Close()
		}()
		c := tls.Client(b, ccfg)
		_ = c.SetDeadline(time.Now().Add(5 * time.Second))
		cerr := c.Handshake()
		if cerr == nil {
			_, cerr = c.Write([]byte{1})
		}
		serr := <-done
		c.Close()
		es := ""
		if serr != nil {
			es = serr.Error()
		}
		tr.Emit(map[string]any{"ev": "tls", "n": n, "x": x, "accepted": serr == nil && cerr == nil, "server_err": es})
	}
}

func init() {
	subcmds["access"] = func(args []string) int {
		fs := flag.NewFlagSet("access", flag.ExitOnError)
		out := fs.String("out", "trace.ndjson", "trace")
		only := fs.Int("only", -1, "only behaviour k (0 tokens, 1 certificates)")
		in := fs.String("in", "", "TLC-generated cases")
		_ = fs.Parse(args)
		tr, err := tracer.New(*out)
		if err != nil {
			die("%v", err)
		}
		data, err := os.ReadFile(*in)
		if err != nil {
			die("%v", err)
		}
		var tok, tl []map[string]any
		for _, line := range bytes.Split(bytes.TrimSpace(data), []byte("\n")) {
			var c struct {
				Kind string         `json:"kind"`
				X    map[string]any `json:"x"`
			}
			if err := json.Unmarshal(line, &c); err != nil {
				die("bad case: %v", err)
			}
			if c.Kind == "token" {
				tok = append(tok, c.X)
			} else {
				tl = append(tl, c.X)
			}
		}
		if *only < 0 || *only == 0 {
			start := tr.Lines() + 1
			tr.Emit(map[string]any{"ev": "reset"})
			accessTokens(tr, tok)
			fmt.Printf("BEHAVIOUR 0 lines %d-%d class %d\n", start, tr.Lines(), len(tok))
		}
		if *only < 0 || *only == 1 {
			start := tr.Lines() + 1
			tr.Emit(map[string]any{"ev": "reset"})
			accessTLS(tr, tl)
			fmt.Printf("BEHAVIOUR 1 lines %d-%d class %d\n", start, tr.Lines(), len(tl))
		}
		if err := tr.Close(); err != nil {
			die("%v", err)
		}
		return 0
	}
}
